//! A closure capturing an mpsc `Receiver` (Send, !Sync).
#![forbid(unsafe_code)]
use roto::{Runtime, library};
use std::sync::mpsc;

fn main() {
    let (_tx, rx) = mpsc::channel::<u64>();
    let _rt = Runtime::from_lib(library! {
        let next = move || -> u64 { rx.try_recv().unwrap_or(0) };
    })
    .unwrap();
}

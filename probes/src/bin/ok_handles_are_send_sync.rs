//! Positive probe: this program must compile. "A function handle may be cloned,
//! sent to and called from any number of threads simultaneously."
#![forbid(unsafe_code)]
use roto::{FileTree, List, NoCtx, RotoString, Runtime, TypedFunc, Val};
use std::sync::Arc;

fn assert_send_sync<T: Send + Sync>() {}

fn main() {
    assert_send_sync::<TypedFunc<NoCtx, fn(u64) -> u64>>();
    assert_send_sync::<TypedFunc<NoCtx, fn(RotoString, List<u64>) -> Option<Val<Vec<u8>>>>>();
    assert_send_sync::<List<u64>>();
    assert_send_sync::<List<RotoString>>();
    let rt = Runtime::new();
    let mut pkg = FileTree::test_file("p", "fn f(x: u64) -> u64 { x + 1 }", 0).compile(&rt).unwrap();
    let f = Arc::new(pkg.get_function::<fn(u64) -> u64>("f").unwrap());
    drop(pkg);
    drop(rt);
    let hs: Vec<_> = (0..3u64)
        .map(|i| {
            let f = f.clone();
            let own = (*f).clone();
            std::thread::spawn(move || f.call(i) + own.call(i))
        })
        .collect();
    let total: u64 = hs.into_iter().map(|h| h.join().unwrap()).sum();
    assert_eq!(total, 2 * (1 + 2 + 3));
}

//! A registered type that is !Sync, passed through a shared handle.
#![forbid(unsafe_code)]
use roto::{FileTree, Runtime, Val, library};
use std::cell::Cell;

fn main() {
    let rt = Runtime::from_lib(library! {
        #[clone] type Counter = Val<Cell<u64>>;
        fn read(c: Val<Cell<u64>>) -> u64 { c.0.get() }
    })
    .unwrap();
    let mut pkg = FileTree::test_file("p", "fn f(c: Counter) -> u64 { read(c) }", 0).compile(&rt).unwrap();
    let f = pkg.get_function::<fn(Val<Cell<u64>>) -> u64>("f").unwrap();
    println!("{}", f.call(Val(Cell::new(3))));
}

//! A handle whose argument type is !Send.
#![forbid(unsafe_code)]
use roto::{FileTree, Runtime, Val};
use std::rc::Rc;

fn main() {
    let rt = Runtime::new();
    let mut pkg = FileTree::test_file("p", "fn f(x: u64) -> u64 { x }", 0).compile(&rt).unwrap();
    let f = pkg.get_function::<fn(Val<Rc<u64>>) -> u64>("f");
    println!("{}", f.is_ok());
}

//! A `move` closure that mutates its captured state (`FnMut`, and Send + Sync because the state is
//! a plain `u64`) registered as a function and entered from four threads through one shared
//! handle: concurrent calls would get aliased `&mut` access to the counter.
#![forbid(unsafe_code)]
use roto::{FileTree, Runtime, library};
use std::sync::Arc;

fn main() {
    let mut counter = 0u64;
    let rt = Runtime::from_lib(library! {
        let bump = move || -> u64 {
            let v = counter;
            std::thread::yield_now();
            counter = v + 1;
            v
        };
    })
    .unwrap();
    let mut pkg = FileTree::test_file("p", "fn f() -> u64 { bump() }", 0).compile(&rt).unwrap();
    let f = Arc::new(pkg.get_function::<fn() -> u64>("f").unwrap());
    let hs: Vec<_> = (0..4)
        .map(|_| {
            let f = f.clone();
            std::thread::spawn(move || {
                for _ in 0..50_000 {
                    f.call();
                }
            })
        })
        .collect();
    for h in hs {
        h.join().unwrap();
    }
    let total = f.call();
    println!("total={total} expected=200000");
    assert_eq!(total, 200_000, "lost updates: several threads were inside an FnMut closure at once");
}

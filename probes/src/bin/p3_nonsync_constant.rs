//! A registered constant of a !Sync type.
#![forbid(unsafe_code)]
use roto::{Runtime, Val, library};
use std::cell::Cell;

fn main() {
    let _rt = Runtime::from_lib(library! {
        #[clone] type Counter = Val<Cell<u64>>;
        const START: Val<Cell<u64>> = Val(Cell::new(1));
    })
    .unwrap();
}

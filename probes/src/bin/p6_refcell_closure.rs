//! A closure capturing a `RefCell` (Send, !Sync).
#![forbid(unsafe_code)]
use roto::{Runtime, library};
use std::cell::RefCell;

fn main() {
    let log: RefCell<Vec<u64>> = RefCell::new(Vec::new());
    let _rt = Runtime::from_lib(library! {
        let record = move |x: u64| -> u64 {
            log.borrow_mut().push(x);
            log.borrow().len() as u64
        };
    })
    .unwrap();
}

//! A `List` (Send + Sync, lock per operation) of !Sync elements shared by two threads.
#![forbid(unsafe_code)]
use roto::{List, Val};
use std::cell::Cell;

fn main() {
    let l: List<Val<Cell<u64>>> = List::new();
    l.push(Val(Cell::new(1)));
    let l2 = l.clone();
    let h = std::thread::spawn(move || l2.get(0).map(|c| c.0.get()));
    println!("{:?} {:?}", l.get(0).map(|c| c.0.get()), h.join().unwrap());
}

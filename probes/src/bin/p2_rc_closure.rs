//! A closure capturing an `Rc` (!Send, !Sync).
#![forbid(unsafe_code)]
use roto::{Runtime, library};
use std::cell::Cell;
use std::rc::Rc;

fn main() {
    let c = Rc::new(Cell::new(0u64));
    let c2 = c.clone();
    let _rt = Runtime::from_lib(library! {
        let bump = move || -> u64 {
            c2.set(c2.get() + 1);
            c2.get()
        };
    })
    .unwrap();
    println!("{}", c.get());
}

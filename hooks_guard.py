#!/usr/bin/env python3
"""Seam-integrity guard.

The simulator runs /repo built with the cargo feature `verif`; what ships is
/repo built without it. The two builds may differ only in the ways the hook
commits (MANIFEST.hooks) introduced:

  * an import switch: `#[cfg(feature = "verif")] use crate::verif::sync::..;`
    next to `#[cfg(not(feature = "verif"))] use std::..;` (the seam's wrapper
    has the API and the semantics of the std type of the same name),
  * a scheduling point: `#[cfg(feature = "verif")] crate::verif::point("..");`,
  * `#[cfg(feature = "verif")] pub mod verif;` and src/verif.rs itself
    (unchanged: its hash is recorded in hooks_sites.json).

Any other item that is conditional on the feature (a module, a function, an
impl, a statement) makes the simulated program a different program from the
shipped one, and a verdict about it would say nothing about the shipped code.
A realistic change may well add another import switch (a new file that uses
the hooked `Mutex`); it has no reason to add anything else.

usage: hooks_guard.py check    examine /repo's working tree
       hooks_guard.py record   rewrite hooks_sites.json (hash of src/verif.rs)

exit 0 = fine; exit 2 = drift (a line `HARNESS-ERROR ...`).
"""
import hashlib
import json
import os
import re
import sys

REPO = "/repo"
HERE = os.path.dirname(os.path.abspath(__file__))
SITES = os.path.join(HERE, "hooks_sites.json")
ON = '#[cfg(feature = "verif")]'
OFF = '#[cfg(not(feature = "verif"))]'
MENTION = re.compile(r'feature\s*=\s*"verif"')


def governed(lines, i):
    """the item an attribute on line i applies to, joined into one string"""
    ctx = []
    j = i + 1
    while j < len(lines) and j < i + 40:
        t = lines[j].strip()
        if t.startswith("#[") and not ctx:
            return t  # stacked attributes: not one of the allowed forms
        ctx.append(t)
        if t.endswith(";") or (t.endswith("{") and not ctx[0].startswith(("use ", "pub use "))):
            break
        j += 1
    return " ".join(ctx)


def allowed(attr, item, rel):
    if attr == ON:
        if re.fullmatch(r"use crate::verif::sync::[A-Za-z0-9_:{}, *]+;", item):
            return True
        if re.fullmatch(r'crate::verif::point\("[a-z_]+"\);', item):
            return True
        if rel == "src/lib.rs" and item == "pub mod verif;":
            return True
    if attr in (ON, OFF):
        # the other half of an import switch (the hooked files split their `use std::{..}`)
        if re.fullmatch(r"use std::[A-Za-z0-9_:{}, *]+;", item) and "verif" not in item:
            return True
    return False


def scan():
    problems = []
    files = []
    for top in ("src", "macros/src"):
        for d, _, fs in os.walk(os.path.join(REPO, top)):
            files += [os.path.join(d, f) for f in fs if f.endswith(".rs")]
    for extra in ("build.rs", "macros/build.rs"):
        if os.path.isfile(os.path.join(REPO, extra)):
            files.append(os.path.join(REPO, extra))
    for f in sorted(files):
        rel = os.path.relpath(f, REPO)
        if rel == "src/verif.rs":
            continue
        lines = open(f, encoding="utf-8", errors="replace").read().split("\n")
        for i, l in enumerate(lines):
            if not MENTION.search(l):
                continue
            attr = l.strip()
            item = governed(lines, i)
            if attr not in (ON, OFF) or not allowed(attr, item, rel):
                problems.append("%s:%d: %s %s" % (rel, i + 1, attr, item[:160]))
    try:
        h = hashlib.sha256(open(os.path.join(REPO, "src/verif.rs"), "rb").read()).hexdigest()
    except OSError:
        h = None
    return problems, h


def main():
    mode = sys.argv[1] if len(sys.argv) > 1 else "check"
    problems, h = scan()
    if mode == "record":
        json.dump({"verif_rs_sha256": h}, open(SITES, "w"), indent=1)
        print("recorded; %d problem(s) on the current tree" % len(problems))
        return 0
    want = json.load(open(SITES))
    if h != want["verif_rs_sha256"]:
        problems.append("src/verif.rs differs from the recorded hook module")
    if problems:
        print("HARNESS-ERROR seam drift: the build the simulator runs (feature `verif`) and the shipped build differ by more than import switches and scheduling points; no verdict about the shipped code is possible")
        for p in problems[:20]:
            print("  " + p)
        return 2
    return 0


sys.exit(main())

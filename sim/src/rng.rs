//! Seeded PRNG: everything random in a run derives from one integer.

#[derive(Clone, Debug)]
pub struct Rng(u64);

pub fn splitmix(x: u64) -> u64 {
    let mut z = x.wrapping_add(0x9E37_79B9_7F4A_7C15);
    z = (z ^ (z >> 30)).wrapping_mul(0xBF58_476D_1CE4_E5B9);
    z = (z ^ (z >> 27)).wrapping_mul(0x94D0_49BB_1331_11EB);
    z ^ (z >> 31)
}

/// Derive a seed from a parent seed and a list of labels.
pub fn derive(seed: u64, labels: &[u64]) -> u64 {
    let mut s = splitmix(seed ^ 0xA076_1D64_78BD_642F);
    for &l in labels {
        s = splitmix(s ^ splitmix(l.wrapping_add(0xE703_7ED1_A0B4_28DB)));
    }
    s
}

pub fn label(s: &str) -> u64 {
    let mut h = 0xcbf2_9ce4_8422_2325u64;
    for b in s.bytes() {
        h ^= b as u64;
        h = h.wrapping_mul(0x0000_0100_0000_01b3);
    }
    h
}

impl Rng {
    pub fn new(seed: u64) -> Self {
        Rng(seed)
    }
    pub fn next(&mut self) -> u64 {
        self.0 = self.0.wrapping_add(0x9E37_79B9_7F4A_7C15);
        let mut z = self.0;
        z = (z ^ (z >> 30)).wrapping_mul(0xBF58_476D_1CE4_E5B9);
        z = (z ^ (z >> 27)).wrapping_mul(0x94D0_49BB_1331_11EB);
        z ^ (z >> 31)
    }
    /// Uniform in 0..n (n > 0)
    pub fn below(&mut self, n: u64) -> u64 {
        debug_assert!(n > 0);
        self.next() % n
    }
    pub fn range(&mut self, lo: u64, hi_incl: u64) -> u64 {
        lo + self.below(hi_incl - lo + 1)
    }
    pub fn chance(&mut self, num: u64, den: u64) -> bool {
        self.below(den) < num
    }
    pub fn pick<'a, T>(&mut self, xs: &'a [T]) -> &'a T {
        &xs[self.below(xs.len() as u64) as usize]
    }
    /// Weighted pick: returns index
    pub fn weighted(&mut self, w: &[u32]) -> usize {
        let total: u64 = w.iter().map(|&x| x as u64).sum();
        let mut r = self.below(total.max(1));
        for (i, &x) in w.iter().enumerate() {
            if r < x as u64 {
                return i;
            }
            r -= x as u64;
        }
        w.len() - 1
    }
}

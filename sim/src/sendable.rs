//! The harness keeps runtimes, packages and handles in process-wide pools and
//! moves them between simulated threads. Whether that is *legal* is decided by
//! the auto traits of the tree under test, which a change to /repo can alter.
//! So that such a change does not merely stop the harness from compiling,
//! objects are kept in `Sendable` wrappers, the auto traits are detected at
//! compile time (`is_send_sync!`) and scenarios fall back to single-threaded
//! histories for objects that may not cross threads.

pub struct Sendable<T>(pub T);
// SAFETY: only one simulated thread runs at a time; scenarios consult `is_send_sync!`
// and keep objects on one thread when the wrapped type is not Send + Sync.
unsafe impl<T> Send for Sendable<T> {}
unsafe impl<T> Sync for Sendable<T> {}
impl<T> std::ops::Deref for Sendable<T> {
    type Target = T;
    fn deref(&self) -> &T {
        &self.0
    }
}
impl<T> std::ops::DerefMut for Sendable<T> {
    fn deref_mut(&mut self) -> &mut T {
        &mut self.0
    }
}
impl<T: Clone> Clone for Sendable<T> {
    fn clone(&self) -> Self {
        Sendable(self.0.clone())
    }
}

pub struct Probe<T>(pub std::marker::PhantomData<T>);
pub trait NotSendSync {
    fn is_send_sync(&self) -> bool {
        false
    }
}
impl<T> NotSendSync for Probe<T> {}
impl<T: Send + Sync> Probe<T> {
    pub fn is_send_sync(&self) -> bool {
        true
    }
}

/// `is_send_sync!(Type)`: does `Type` implement `Send + Sync` in the tree under test?
#[macro_export]
macro_rules! is_send_sync {
    ($t:ty) => {{
        #[allow(unused_imports)]
        use $crate::sendable::NotSendSync as _;
        $crate::sendable::Probe::<$t>(std::marker::PhantomData).is_send_sync()
    }};
}

//! The deterministic scheduler: real OS threads of which exactly one is ever
//! runnable; the choice of who runs next is made here, from one PRNG stream
//! (or from a recorded schedule when replaying). DESIGN §2.3, §2.4.

use crate::alloc;
use crate::rng::Rng;
use std::cell::Cell;
use std::collections::HashMap;
use std::sync::atomic::{AtomicPtr, AtomicU64, AtomicUsize, Ordering::*};
use std::sync::{Condvar, Mutex, MutexGuard};

#[derive(Clone, Debug, PartialEq)]
pub enum Strategy {
    Uniform,
    /// stay on the current thread with probability `stay`/100
    Sticky { stay: u8 },
    /// PCT-style priorities with `depth`-1 priority change points, placed in 0..horizon
    Pct { depth: u8, horizon: u32 },
    /// sticky, but prefers to preempt right after a lock release
    Targeted,
    /// PCT whose priority change points are counted in events other than identifier interning
    /// (four steps in five of a compilation are interning points; a stall placed by raw step
    /// number mostly lands on one of them instead of inside a clone, drop, call or lock window)
    PctX { depth: u8, horizon: u32 },
}

impl Strategy {
    pub fn name(&self) -> String {
        match self {
            Strategy::Uniform => "uniform".into(),
            Strategy::Sticky { stay } => format!("sticky{stay}"),
            Strategy::Pct { depth, horizon } => format!("pct{depth}/{horizon}"),
            Strategy::Targeted => "targeted".into(),
            Strategy::PctX { depth, horizon } => format!("pctx{depth}/{horizon}"),
        }
    }
    pub fn parse(s: &str) -> Option<Strategy> {
        if s == "uniform" {
            return Some(Strategy::Uniform);
        }
        if s == "targeted" {
            return Some(Strategy::Targeted);
        }
        if let Some(r) = s.strip_prefix("sticky") {
            return r.parse().ok().map(|stay| Strategy::Sticky { stay });
        }
        if let Some(r) = s.strip_prefix("pctx") {
            let (d, h) = r.split_once('/')?;
            return Some(Strategy::PctX {
                depth: d.parse().ok()?,
                horizon: h.parse().ok()?,
            });
        }
        if let Some(r) = s.strip_prefix("pct") {
            let (d, h) = r.split_once('/')?;
            return Some(Strategy::Pct {
                depth: d.parse().ok()?,
                horizon: h.parse().ok()?,
            });
        }
        None
    }
}

#[derive(Clone, Copy, PartialEq, Debug)]
enum St {
    Runnable,
    Blocked(usize),
    Done,
}

pub const K_ACQ: u8 = 0;
pub const K_REL: u8 = 1;
pub const K_BLOCKED: u8 = 2;
pub const K_POINT: u8 = 3;
pub const K_END: u8 = 4;
pub const K_START: u8 = 5;
pub const K_FINE: u8 = 6;

struct Inner {
    active: bool,
    current: usize,
    st: Vec<St>,
    labels: Vec<String>,
    owners: HashMap<usize, usize>,
    mids: HashMap<usize, u32>,
    sites: HashMap<&'static str, u32>,
    rng: Rng,
    strategy: Strategy,
    replay: Option<Vec<u8>>,
    replay_pos: usize,
    prio: Vec<i64>,
    change_points: Vec<u64>,
    /// (thread, until step): not picked while others can run
    stall: Option<(usize, u64)>,
    decisions: Vec<u8>,
    step: u64,
    /// events other than interning points
    xstep: u64,
    quiet_next: bool,
    step_cap: u64,
    hash: u64,
    sig_hash: u64,
    switches: u64,
    preemptions: u64,
    contended: u64,
    preempt_after_rel: u64,
    max_sites: HashMap<&'static str, u64>,
    keep_trace: bool,
    trace: Vec<(u8, u8, u32)>,
    panics: Vec<(usize, String)>,
}

impl Inner {
    fn empty() -> Self {
        Inner {
            active: false,
            current: usize::MAX,
            st: Vec::new(),
            labels: Vec::new(),
            owners: HashMap::new(),
            mids: HashMap::new(),
            sites: HashMap::new(),
            rng: Rng::new(0),
            strategy: Strategy::Uniform,
            replay: None,
            replay_pos: 0,
            prio: Vec::new(),
            change_points: Vec::new(),
            stall: None,
            decisions: Vec::new(),
            step: 0,
            xstep: 0,
            quiet_next: false,
            step_cap: 0,
            hash: 0,
            sig_hash: 0,
            switches: 0,
            preemptions: 0,
            contended: 0,
            preempt_after_rel: 0,
            max_sites: HashMap::new(),
            keep_trace: false,
            trace: Vec::new(),
            panics: Vec::new(),
        }
    }
    fn mid(&mut self, m: usize) -> u32 {
        let n = self.mids.len() as u32;
        *self.mids.entry(m).or_insert(n)
    }
    fn event(&mut self, tid: usize, kind: u8, obj: u32) {
        self.step += 1;
        if !std::mem::take(&mut self.quiet_next) {
            self.xstep += 1;
        }
        alloc::CUR_STEP.store(self.step, Relaxed);
        let hb = HEARTBEAT.load(Relaxed);
        if !hb.is_null() {
            // SAFETY: points into the shared region owned by the worker; single writer
            unsafe { std::ptr::write_volatile(hb, std::ptr::read_volatile(hb).wrapping_add(1)) };
        }
        let w = ((tid as u64) << 40) | ((kind as u64) << 32) | obj as u64;
        self.hash = (self.hash ^ w).wrapping_mul(0x0000_0100_0000_01b3);
        let s = ((tid as u64) << 8) | kind as u64;
        self.sig_hash = (self.sig_hash ^ s).wrapping_mul(0x0000_0100_0000_01b3);
        if self.keep_trace {
            self.trace.push((tid as u8, kind, obj));
        }
    }
    fn runnable(&self) -> Vec<usize> {
        (0..self.st.len())
            .filter(|&i| self.st[i] == St::Runnable)
            .collect()
    }
    /// choose the next thread among the runnable ones
    fn pick(&mut self, me: usize, kind: u8) -> Option<usize> {
        let mut r = self.runnable();
        if r.is_empty() {
            return None;
        }
        let n_all = r.len();
        // a thread preempted between two instructions stays parked for a while (a stall inside
        // an operation: the others get to do whole operations, not one step, before it goes on)
        if self.replay.is_none() {
            if let Some((t, until)) = self.stall {
                if self.step < until && r.len() > 1 && r.contains(&t) && !(kind == K_FINE && t == me) {
                    r.retain(|&x| x != t);
                } else if self.step >= until {
                    self.stall = None;
                }
            }
        }
        if r.len() == 1 {
            if n_all > 1 {
                // a decision all the same (a replay, which does not stall, must find it in its list)
                self.decisions.push(r[0] as u8);
                crumb_push(r[0] as u8);
            }
            return Some(r[0]);
        }
        let me_runnable = r.contains(&me);
        let choice = if self.replay.is_none() && kind == K_FINE {
            // an instruction-level preemption that does not switch threads would be wasted
            let others: Vec<usize> = r.iter().copied().filter(|&t| t != me).collect();
            if others.is_empty() {
                me
            } else {
                let bits = self.rng.below(11);
                self.stall = Some((me, self.step + (1u64 << bits) + self.rng.below(1u64 << bits)));
                others[self.rng.below(others.len() as u64) as usize]
            }
        } else if let Some(rep) = &self.replay {
            let c = rep.get(self.replay_pos).map(|&x| x as usize);
            self.replay_pos += 1;
            match c {
                Some(c) if r.contains(&c) => c,
                _ => {
                    if me_runnable {
                        me
                    } else {
                        r[0]
                    }
                }
            }
        } else {
            match self.strategy.clone() {
                Strategy::Uniform => r[self.rng.below(r.len() as u64) as usize],
                Strategy::Sticky { stay } => {
                    if me_runnable && self.rng.below(100) < stay as u64 {
                        me
                    } else {
                        r[self.rng.below(r.len() as u64) as usize]
                    }
                }
                Strategy::Targeted => {
                    let stay: u64 = if kind == K_REL { 35 } else { 92 };
                    if me_runnable && self.rng.below(100) < stay {
                        me
                    } else {
                        let others: Vec<usize> = r.iter().copied().filter(|&t| t != me).collect();
                        if others.is_empty() {
                            me
                        } else {
                            others[self.rng.below(others.len() as u64) as usize]
                        }
                    }
                }
                Strategy::Pct { .. } | Strategy::PctX { .. } => {
                    // priority change points: the running thread drops to a fresh lowest priority
                    let step = if matches!(self.strategy, Strategy::PctX { .. }) { self.xstep } else { self.step };
                    let mut k = 0;
                    while k < self.change_points.len() {
                        if self.change_points[k] <= step {
                            self.change_points.remove(k);
                            if me < self.prio.len() {
                                let low = self.prio.iter().copied().min().unwrap_or(0) - 1;
                                self.prio[me] = low;
                            }
                        } else {
                            k += 1;
                        }
                    }
                    *r.iter().max_by_key(|&&t| self.prio[t]).unwrap()
                }
            }
        };
        self.decisions.push(choice as u8);
        crumb_push(choice as u8);
        Some(choice)
    }
}

pub struct Sched {
    m: Mutex<Inner>,
    cv: Condvar,
}

static S: std::sync::LazyLock<Sched> = std::sync::LazyLock::new(|| Sched {
    m: Mutex::new(Inner::empty()),
    cv: Condvar::new(),
});

thread_local! { static TID: Cell<usize> = const { Cell::new(usize::MAX) }; }
pub fn tid() -> usize {
    TID.try_with(|t| t.get()).unwrap_or(usize::MAX)
}
pub fn in_sim() -> bool {
    tid() != usize::MAX
}

static STAMP: AtomicU64 = AtomicU64::new(0);
/// A strictly increasing global event stamp (linearizability intervals).
pub fn stamp() -> u64 {
    STAMP.fetch_add(1, SeqCst) + 1
}

// breadcrumb buffer in shared memory: survives a crash of the child
static CRUMB: AtomicPtr<u8> = AtomicPtr::new(std::ptr::null_mut());
static CRUMB_CAP: AtomicUsize = AtomicUsize::new(0);
static CRUMB_LEN: AtomicPtr<u64> = AtomicPtr::new(std::ptr::null_mut());
static HEARTBEAT: AtomicPtr<u64> = AtomicPtr::new(std::ptr::null_mut());
pub fn set_heartbeat(p: *mut u64) {
    HEARTBEAT.store(p, SeqCst);
}
pub fn set_crumb(buf: *mut u8, cap: usize, len: *mut u64) {
    CRUMB.store(buf, SeqCst);
    CRUMB_CAP.store(cap, SeqCst);
    CRUMB_LEN.store(len, SeqCst);
}
fn crumb_push(b: u8) {
    let p = CRUMB.load(Relaxed);
    let l = CRUMB_LEN.load(Relaxed);
    if p.is_null() || l.is_null() {
        return;
    }
    // SAFETY: single writer (only one simulated thread runs), region owned by the worker
    unsafe {
        let n = *l as usize;
        if n < CRUMB_CAP.load(Relaxed) {
            *p.add(n) = b;
        }
        std::ptr::write_volatile(l, (n + 1) as u64);
    }
}

/// What to do when the run cannot continue (deadlock, step budget): never returns.
pub type FatalFn = fn(class: &str, detail: &str) -> !;
static FATAL: Mutex<Option<FatalFn>> = Mutex::new(None);
pub fn set_fatal(f: FatalFn) {
    *FATAL.lock().unwrap() = Some(f);
}
fn fatal(class: &str, detail: &str) -> ! {
    let f = *FATAL.lock().unwrap();
    match f {
        Some(f) => f(class, detail),
        None => {
            eprintln!("FATAL {class}: {detail}");
            std::process::exit(3)
        }
    }
}

impl Sched {
    fn hand_over(&self, mut g: MutexGuard<'_, Inner>, me: usize, kind: u8) {
        if g.step > g.step_cap {
            let d = format!("step budget of {} scheduler steps exceeded", g.step_cap);
            drop(g);
            fatal("non-termination", &d);
        }
        match g.pick(me, kind) {
            Some(n) => {
                if n != me {
                    g.switches += 1;
                    if me < g.st.len() && g.st[me] == St::Runnable {
                        g.preemptions += 1;
                        if kind == K_REL {
                            g.preempt_after_rel += 1;
                        }
                    }
                }
                g.current = n;
            }
            None => {
                if g.st.iter().any(|s| matches!(s, St::Blocked(_))) {
                    let mut parts = Vec::new();
                    for (t, s) in g.st.iter().enumerate() {
                        if let St::Blocked(m) = s {
                            let owner = g.owners.get(m).copied();
                            let mid = g.mids.get(m).copied().unwrap_or(u32::MAX);
                            parts.push(format!(
                                "t{t} [{}] waits for m{mid} held by {}",
                                g.labels.get(t).cloned().unwrap_or_default(),
                                owner.map(|o| format!("t{o}")).unwrap_or("nobody".into())
                            ));
                        }
                    }
                    let d = parts.join("; ");
                    drop(g);
                    fatal("deadlock", &d);
                }
                g.current = usize::MAX;
            }
        }
        self.cv.notify_all();
        if me < g.st.len() && g.st[me] != St::Done {
            let _g = self.cv.wait_while(g, |i| i.current != me).unwrap();
        }
    }
}

fn site_id(g: &mut Inner, site: &'static str) -> u32 {
    let n = g.sites.len() as u32;
    *g.sites.entry(site).or_insert(n)
}

/// A scheduling point reached by harness code or (through the /repo seam) by roto.
pub fn point(site: &'static str) {
    point_kind(site, K_POINT)
}

fn point_kind(site: &'static str, kind: u8) {
    let me = tid();
    if me == usize::MAX {
        return;
    }
    let _mg = alloc::ModeGuard::new(alloc::MODE_PLAIN);
    let s = &*S;
    let mut g = s.m.lock().unwrap();
    if !g.active {
        return;
    }
    let sid = site_id(&mut g, site);
    *g.max_sites.entry(site).or_insert(0) += 1;
    g.quiet_next = site == "intern";
    g.event(me, kind, sid);
    s.hand_over(g, me, kind);
    // anchored window: after the n-th visit of this site by this thread, single-step k more
    // instructions and preempt (armed here; the trap flag goes on when the mode guard of this
    // function switches back to code under test)
    if kind == K_POINT {
        let hit = {
            let a = ANCHOR.lock().unwrap();
            match a.as_ref() {
                Some((t, st, nth, k, j)) if *t == me && st == site => {
                    let seen = ANCHOR_SEEN.fetch_add(1, SeqCst);
                    if seen == *nth { Some((*k, *j)) } else { None }
                }
                _ => None,
            }
        };
        if let Some((k, j)) = hit {
            ANCHOR_ARMED.fetch_add(1, SeqCst);
            FINE_LEFT.with(|c| c.set(k));
            FINE_ATOMIC_TARGET.with(|c| c.set(j));
            FINE_ATOMIC_SEEN.with(|c| c.set(0));
            FINE_PREV_ATOMIC.with(|c| c.set(false));
            FINE_ON.with(|c| c.set(true));
        }
    }
}

/// Anchored instruction-level window: (thread, site, n, k, j) - after the n-th visit of hook site
/// `site` by thread `thread`, that thread is single-stepped and preempted k instructions of code
/// under test later (j = 0), or right after the j-th atomic read-modify-write instruction it
/// executes (j > 0; k is then only the budget of steps). Hook sites are where shared state is touched (interning, registry lock,
/// clone/drop of host values), so the instructions right behind them are where a check-then-act
/// on an un-hooked primitive would sit.
static ANCHOR: Mutex<Option<(usize, String, u64, u64, u64)>> = Mutex::new(None);
static ANCHOR_SEEN: AtomicU64 = AtomicU64::new(0);
pub static ANCHOR_ARMED: AtomicU64 = AtomicU64::new(0);
pub static ANCHOR_FIRED_ATOMIC: AtomicU64 = AtomicU64::new(0);
pub fn set_anchor(a: Option<(usize, String, u64, u64, u64)>) {
    *ANCHOR.lock().unwrap() = a;
    ANCHOR_SEEN.store(0, SeqCst);
}

pub fn set_label(label: &str) {
    let me = tid();
    if me == usize::MAX {
        return;
    }
    let _mg = alloc::ModeGuard::new(alloc::MODE_PLAIN);
    let mut g = S.m.lock().unwrap();
    if me < g.labels.len() {
        g.labels[me].clear();
        g.labels[me].push_str(label);
    }
}

struct H;
impl roto::verif::Hooks for H {
    fn point(&self, site: &'static str) {
        point(site)
    }
    fn acquire(&self, m: usize) {
        let me = tid();
        if me == usize::MAX {
            return;
        }
        let _mg = alloc::ModeGuard::new(alloc::MODE_PLAIN);
        let s = &*S;
        {
            let mut g = s.m.lock().unwrap();
            if !g.active {
                return;
            }
            let id = g.mid(m);
            g.event(me, K_ACQ, id);
            s.hand_over(g, me, K_ACQ);
        }
        loop {
            let mut g = s.m.lock().unwrap();
            if !g.owners.contains_key(&m) {
                g.owners.insert(m, me);
                return;
            }
            g.st[me] = St::Blocked(m);
            g.contended += 1;
            let id = g.mid(m);
            g.event(me, K_BLOCKED, id);
            s.hand_over(g, me, K_BLOCKED);
        }
    }
    fn release(&self, m: usize) {
        let me = tid();
        if me == usize::MAX {
            return;
        }
        let _mg = alloc::ModeGuard::new(alloc::MODE_PLAIN);
        let s = &*S;
        let mut g = s.m.lock().unwrap();
        if !g.active {
            return;
        }
        g.owners.remove(&m);
        for t in 0..g.st.len() {
            if g.st[t] == St::Blocked(m) {
                g.st[t] = St::Runnable;
            }
        }
        let id = g.mid(m);
        g.event(me, K_REL, id);
        s.hand_over(g, me, K_REL);
    }
}

pub fn install() {
    roto::verif::install(Box::new(H));
}

pub struct SimCfg {
    pub seed: u64,
    pub strategy: Strategy,
    pub replay: Option<Vec<u8>>,
    pub step_cap: u64,
    pub keep_trace: bool,
}

#[derive(Debug, Default, Clone)]
pub struct SimOutcome {
    pub steps: u64,
    pub switches: u64,
    pub preemptions: u64,
    pub preempt_after_rel: u64,
    pub contended: u64,
    pub decisions: Vec<u8>,
    pub trace_hash: u64,
    pub sig_hash: u64,
    pub sites: Vec<(String, u64)>,
    pub trace: Vec<(u8, u8, u32)>,
    pub panics: Vec<(usize, String)>,
}

pub type Body = Box<dyn FnOnce() + Send + 'static>;

/// Run `bodies` as simulated threads to completion under the scheduler.
pub fn run_sim(cfg: SimCfg, bodies: Vec<Body>) -> SimOutcome {
    let n = bodies.len();
    let s = &*S;
    {
        let mut g = s.m.lock().unwrap();
        *g = Inner::empty();
        g.active = true;
        g.current = usize::MAX - 1;
        g.st = vec![St::Runnable; n];
        g.labels = vec![String::new(); n];
        g.rng = Rng::new(cfg.seed);
        g.strategy = cfg.strategy.clone();
        g.replay = cfg.replay.clone();
        g.step_cap = cfg.step_cap;
        g.keep_trace = cfg.keep_trace;
        if let Strategy::Pct { depth, horizon } | Strategy::PctX { depth, horizon } = cfg.strategy {
            // distinct random priorities
            let mut p: Vec<i64> = (0..n as i64).map(|i| i + 10).collect();
            for i in (1..n).rev() {
                let j = g.rng.below(i as u64 + 1) as usize;
                p.swap(i, j);
            }
            g.prio = p;
            let mut cps = Vec::new();
            for _ in 1..depth {
                cps.push(g.rng.below(horizon.max(1) as u64));
            }
            g.change_points = cps;
        }
    }
    let hs: Vec<_> = bodies
        .into_iter()
        .enumerate()
        .map(|(i, b)| {
            std::thread::Builder::new()
                .name(format!("sim{i}"))
                .stack_size(1 << 20)
                .spawn(move || {
                    let s = &*S;
                    TID.with(|t| t.set(i));
                    {
                        let g = s.m.lock().unwrap();
                        let _g = s.cv.wait_while(g, |x| x.current != i).unwrap();
                    }
                    roto::verif::set_active(true);
                    alloc::set_mode(alloc::MODE_RUN);
                    let r = std::panic::catch_unwind(std::panic::AssertUnwindSafe(b));
                    alloc::set_mode(alloc::MODE_PLAIN);
                    roto::verif::set_active(false);
                    let mut g = s.m.lock().unwrap();
                    if let Err(e) = r {
                        let msg = if let Some(s) = e.downcast_ref::<&str>() {
                            s.to_string()
                        } else if let Some(s) = e.downcast_ref::<String>() {
                            s.clone()
                        } else {
                            "panic".to_string()
                        };
                        crate::viol::record("panic", format!("thread {i} panicked: {}", msg.chars().take(300).collect::<String>()));
                        g.panics.push((i, msg));
                    }
                    g.st[i] = St::Done;
                    // a finished thread must not keep a simulated lock
                    let owned: Vec<usize> = g
                        .owners
                        .iter()
                        .filter(|&(_, &o)| o == i)
                        .map(|(&m, _)| m)
                        .collect();
                    let _ = owned; // left in place on purpose: waiters then report a deadlock
                    g.event(i, K_END, 0);
                    TID.with(|t| t.set(usize::MAX));
                    s.hand_over(g, i, K_END);
                })
                .expect("spawn simulated thread")
        })
        .collect();
    {
        let mut g = s.m.lock().unwrap();
        g.event(0, K_START, n as u32);
        let first = g.pick(usize::MAX, K_START).expect("no threads");
        g.current = first;
        s.cv.notify_all();
    }
    for h in hs {
        let _ = h.join();
    }
    let mut g = s.m.lock().unwrap();
    g.active = false;
    let mut sites: Vec<(String, u64)> = g.max_sites.iter().map(|(k, v)| (k.to_string(), *v)).collect();
    sites.sort();
    SimOutcome {
        steps: g.step,
        switches: g.switches,
        preemptions: g.preemptions,
        preempt_after_rel: g.preempt_after_rel,
        contended: g.contended,
        decisions: std::mem::take(&mut g.decisions),
        trace_hash: g.hash,
        sig_hash: g.sig_hash,
        sites,
        trace: std::mem::take(&mut g.trace),
        panics: std::mem::take(&mut g.panics),
    }
}

/// Decisions recorded so far (for the fatal path)
pub fn decisions_so_far() -> (Vec<u8>, u64) {
    match S.m.try_lock() {
        Ok(g) => (g.decisions.clone(), g.step),
        Err(_) => (Vec::new(), 0),
    }
}

/// Progress that is not a scheduler step (the checker's own bounded search over a recorded
/// history): keeps the parent's watchdog from taking a long search for a run that hangs.
pub fn beat() {
    let hb = HEARTBEAT.load(Relaxed);
    if !hb.is_null() {
        // SAFETY: points into the shared region owned by the worker; single writer at this point
        unsafe { std::ptr::write_volatile(hb, std::ptr::read_volatile(hb).wrapping_add(1)) };
    }
}

// ------------------------------------------------------------------ fine-grained windows
//
// Hook points are coarse: two plain `Arc` operations in one `drop`, or two
// instructions of generated code, have no scheduling point between them. For one
// chosen operation per run the simulated thread is therefore single-stepped with the
// x86 trap flag: after exactly `k` instructions of code under test (allocator mode
// RUN; harness code is stepped through but neither counted nor preempted) the
// SIGTRAP handler turns the trap flag off and enters the scheduler, which may park
// the thread right there and run the others. `k` is part of the run description,
// so the preemption lands on the same instruction in a replay.

use crate::alloc::FINE_ON;
thread_local! {
    static FINE_LEFT: Cell<u64> = const { Cell::new(0) };
    /// atomic mode: preempt right after the j-th atomic read-modify-write instruction (0 = off)
    static FINE_ATOMIC_TARGET: Cell<u64> = const { Cell::new(0) };
    static FINE_ATOMIC_SEEN: Cell<u64> = const { Cell::new(0) };
    static FINE_PREV_ATOMIC: Cell<bool> = const { Cell::new(false) };
}

/// Is the instruction at `rip` an atomic read-modify-write (`lock` prefix, or `xchg` with a
/// memory operand)? Those are the instructions un-hooked synchronisation is made of: a
/// preemption right behind one lands exactly between "lock released" and whatever comes next.
#[cfg(target_arch = "x86_64")]
fn is_atomic_at(rip: usize) -> bool {
    // SAFETY: reads a few bytes of the code the thread is about to execute
    let b = |i: usize| unsafe { std::ptr::read_volatile((rip + i) as *const u8) };
    let mut i = 0;
    while i < 4 {
        match b(i) {
            0xF0 => return true,
            0x66 | 0x67 | 0x2E | 0x36 | 0x3E | 0x26 | 0x64 | 0x65 | 0xF2 | 0xF3 => i += 1,
            _ => break,
        }
    }
    if (0x40..=0x4F).contains(&b(i)) {
        i += 1;
    }
    matches!(b(i), 0x86 | 0x87) && (b(i + 1) >> 6) != 3
}
pub static FINE_FIRED: AtomicU64 = AtomicU64::new(0);
pub static FINE_STEPS: AtomicU64 = AtomicU64::new(0);

#[cfg(target_arch = "x86_64")]
extern "C" fn trap_handler(_sig: libc::c_int, _info: *mut libc::siginfo_t, uctx: *mut libc::c_void) {
    const TF: i64 = 0x100;
    // SAFETY: uctx is the ucontext of the interrupted thread
    let uc = unsafe { &mut *(uctx as *mut libc::ucontext_t) };
    let on = FINE_ON.try_with(|c| c.get()).unwrap_or(false);
    if !on {
        uc.uc_mcontext.gregs[libc::REG_EFL as usize] &= !TF;
        return;
    }
    if alloc::mode() == alloc::MODE_PLAIN {
        // harness code: not stepped, not counted, never preempted; stepping resumes when the
        // thread switches back to code under test (alloc::set_mode)
        uc.uc_mcontext.gregs[libc::REG_EFL as usize] &= !TF;
        return;
    }
    FINE_STEPS.fetch_add(1, Relaxed);
    let left = FINE_LEFT.with(|c| {
        let v = c.get().saturating_sub(1);
        c.set(v);
        v
    });
    let target = FINE_ATOMIC_TARGET.with(|c| c.get());
    if target > 0 {
        // atomic mode: `left` is only the budget of steps
        let mut fire = false;
        if FINE_PREV_ATOMIC.with(|c| c.get()) {
            let seen = FINE_ATOMIC_SEEN.with(|c| {
                c.set(c.get() + 1);
                c.get()
            });
            fire = seen == target;
        }
        FINE_PREV_ATOMIC.with(|c| c.set(is_atomic_at(uc.uc_mcontext.gregs[libc::REG_RIP as usize] as usize)));
        let rip_now = uc.uc_mcontext.gregs[libc::REG_RIP as usize] as usize;
        if fire || FIRE_PENDING.with(|c| c.get()) {
            fire = !no_park(rip_now);
            FIRE_PENDING.with(|c| c.set(!fire));
        }
        if fire {
            ANCHOR_FIRED_ATOMIC.fetch_add(1, Relaxed);
            FINE_ATOMIC_TARGET.with(|c| c.set(0));
            FINE_ON.with(|c| c.set(false));
            uc.uc_mcontext.gregs[libc::REG_EFL as usize] &= !TF;
            FINE_FIRED.fetch_add(1, Relaxed);
            point_kind("fine-preempt", K_FINE);
        } else if left == 0 && !FIRE_PENDING.with(|c| c.get()) {
            FINE_ATOMIC_TARGET.with(|c| c.set(0));
            FINE_ON.with(|c| c.set(false));
            uc.uc_mcontext.gregs[libc::REG_EFL as usize] &= !TF;
        }
        return;
    }
    if left == 0 {
        if no_park(uc.uc_mcontext.gregs[libc::REG_RIP as usize] as usize) {
            // inside the C library: one more step, then look again
            FINE_LEFT.with(|c| c.set(1));
            return;
        }
        FINE_ON.with(|c| c.set(false));
        uc.uc_mcontext.gregs[libc::REG_EFL as usize] &= !TF;
        FINE_FIRED.fetch_add(1, Relaxed);
        point_kind("fine-preempt", K_FINE);
    }
}

/// Text ranges in which a thread is never parked by an instruction-level preemption: the C
/// library and the dynamic linker. The scheduler's own code allocates, and the C library's
/// allocator is not re-entrant: a thread parked in the middle of `free` (a block that the harness
/// allocated and code under test releases) while the handler path calls `malloc` corrupts the
/// heap of the harness - seen as garbage results in one call-race run in twelve thousand. The
/// preemption is postponed to the first instruction outside these ranges (deterministic: the
/// address space is not randomised).
static NO_PARK: [(AtomicUsize, AtomicUsize); 8] = [const { (AtomicUsize::new(0), AtomicUsize::new(0)) }; 8];
thread_local! {
    static FIRE_PENDING: Cell<bool> = const { Cell::new(false) };
}
fn no_park(rip: usize) -> bool {
    NO_PARK.iter().any(|(a, b)| {
        let (a, b) = (a.load(Relaxed), b.load(Relaxed));
        a != 0 && rip >= a && rip < b
    })
}
fn load_no_park_ranges() {
    let Ok(maps) = std::fs::read_to_string("/proc/self/maps") else { return };
    let mut n = 0;
    for l in maps.lines() {
        let mut it = l.split_whitespace();
        let (Some(range), Some(perm)) = (it.next(), it.next()) else { continue };
        let path = l.rsplit(' ').next().unwrap_or("");
        let lib = path.rsplit('/').next().unwrap_or("");
        if !perm.contains('x') || !(lib.starts_with("libc.") || lib.starts_with("libc-") || lib.starts_with("ld-linux") || lib.starts_with("libpthread") || lib.starts_with("libgcc_s")) {
            continue;
        }
        if let Some((a, b)) = range.split_once('-') {
            if let (Ok(a), Ok(b)) = (usize::from_str_radix(a, 16), usize::from_str_radix(b, 16)) {
                if n < NO_PARK.len() {
                    NO_PARK[n].0.store(a, Relaxed);
                    NO_PARK[n].1.store(b, Relaxed);
                    n += 1;
                }
            }
        }
    }
}

pub fn install_trap_handler() {
    load_no_park_ranges();
    #[cfg(target_arch = "x86_64")]
    // SAFETY: installing a signal handler (runs on the interrupted thread's own stack)
    unsafe {
        let mut sa: libc::sigaction = std::mem::zeroed();
        sa.sa_sigaction = trap_handler as *const () as usize;
        sa.sa_flags = libc::SA_SIGINFO | libc::SA_NODEFER;
        libc::sigemptyset(&mut sa.sa_mask);
        libc::sigaction(libc::SIGTRAP, &sa, std::ptr::null_mut());
    }
}

/// Run `f` with a preemption right after the `j`-th atomic read-modify-write instruction of code
/// under test (reference counts, un-hooked locks: the instants at which two owners or two lock
/// users can cross), within a budget of 6000 single steps.
pub fn fine_window_atomic<R>(j: u64, f: impl FnOnce() -> R) -> R {
    if j == 0 || !in_sim() || !cfg!(target_arch = "x86_64") {
        return f();
    }
    FINE_LEFT.with(|c| c.set(6000));
    FINE_ATOMIC_TARGET.with(|c| c.set(j));
    FINE_ATOMIC_SEEN.with(|c| c.set(0));
    FINE_PREV_ATOMIC.with(|c| c.set(false));
    FINE_ON.with(|c| c.set(true));
    #[cfg(target_arch = "x86_64")]
    // SAFETY: sets the trap flag of this thread
    unsafe {
        core::arch::asm!("pushfq", "or qword ptr [rsp], 0x100", "popfq");
    }
    let r = f();
    #[cfg(target_arch = "x86_64")]
    // SAFETY: clears the trap flag of this thread
    unsafe {
        core::arch::asm!("pushfq", "and qword ptr [rsp], -257", "popfq");
    }
    FINE_ON.with(|c| c.set(false));
    FINE_ATOMIC_TARGET.with(|c| c.set(0));
    r
}

/// Run `f` with a preemption after exactly `k` instructions of code under test.
pub fn fine_window<R>(k: u64, f: impl FnOnce() -> R) -> R {
    if k == 0 || !in_sim() || !cfg!(target_arch = "x86_64") {
        return f();
    }
    FINE_LEFT.with(|c| c.set(k));
    FINE_ON.with(|c| c.set(true));
    #[cfg(target_arch = "x86_64")]
    // SAFETY: sets the trap flag of this thread
    unsafe {
        core::arch::asm!("pushfq", "or qword ptr [rsp], 0x100", "popfq");
    }
    let r = f();
    #[cfg(target_arch = "x86_64")]
    // SAFETY: clears the trap flag of this thread
    unsafe {
        core::arch::asm!("pushfq", "and qword ptr [rsp], -257", "popfq");
    }
    FINE_ON.with(|c| c.set(false));
    r
}

//! Shared memory between a worker and the child it forks for a block of
//! runs. Everything the worker must know about a run that ends in a crash
//! (`SIGSEGV`, `abort()`) or in a simulator-detected deadlock is written here
//! *as it happens*, so it survives the death of the child.

use std::sync::atomic::{AtomicPtr, Ordering::SeqCst};

pub const CRUMB_CAP: usize = 256 << 10;
pub const OUT_CAP: usize = 32 << 20;
pub const PANIC_CAP: usize = 2048;

#[repr(C)]
pub struct Header {
    /// index (within the block) of the run in progress
    pub run_pos: u64,
    /// 0 = between runs, 1 = in a run
    pub in_run: u64,
    pub n_decisions: u64,
    pub out_len: u64,
    pub out_overflow: u64,
    /// scheduler step counter of the run in progress (progress indicator for the watchdog)
    pub heartbeat: u64,
    // crash record (written by the signal handler)
    pub crash_sig: u64,
    pub crash_addr: u64,
    pub crash_code: u64,
    pub crash_step: u64,
    pub crash_attr_kind: u64, // 0 none, 1 page block, 2 arena block, 3 poison word in register
    pub crash_attr_module: u64,
    pub crash_attr_state: u64,
    pub crash_attr_freed_step: u64,
    pub crash_poison_reg: u64,
    pub crash_ip: u64,
    pub panic_len: u64,
    pub panic_msg: [u8; PANIC_CAP],
}

pub struct Shm {
    pub base: *mut u8,
    pub len: usize,
}
unsafe impl Send for Shm {}
unsafe impl Sync for Shm {}

static CUR: AtomicPtr<Header> = AtomicPtr::new(std::ptr::null_mut());

impl Shm {
    pub fn new() -> Shm {
        let len = std::mem::size_of::<Header>().next_multiple_of(4096) + CRUMB_CAP + OUT_CAP;
        // SAFETY: anonymous shared mapping
        let p = unsafe {
            libc::mmap(
                std::ptr::null_mut(),
                len,
                libc::PROT_READ | libc::PROT_WRITE,
                libc::MAP_SHARED | libc::MAP_ANONYMOUS | libc::MAP_NORESERVE,
                -1,
                0,
            )
        };
        assert!(p != libc::MAP_FAILED, "mmap shared region");
        Shm {
            base: p as *mut u8,
            len,
        }
    }
    pub fn header(&self) -> &mut Header {
        // SAFETY: region is at least a Header
        unsafe { &mut *(self.base as *mut Header) }
    }
    fn crumb_ptr(&self) -> *mut u8 {
        unsafe { self.base.add(std::mem::size_of::<Header>().next_multiple_of(4096)) }
    }
    fn out_ptr(&self) -> *mut u8 {
        unsafe { self.crumb_ptr().add(CRUMB_CAP) }
    }
    pub fn reset(&self) {
        let h = self.header();
        h.run_pos = 0;
        h.in_run = 0;
        h.n_decisions = 0;
        h.out_len = 0;
        h.out_overflow = 0;
        h.heartbeat = 0;
        h.crash_sig = 0;
        h.crash_addr = 0;
        h.crash_code = 0;
        h.crash_step = 0;
        h.crash_attr_kind = 0;
        h.crash_poison_reg = 0;
        h.crash_ip = 0;
        h.panic_len = 0;
    }
    /// child side: make this region the target of breadcrumbs / crash records
    pub fn attach_child(&self) {
        CUR.store(self.base as *mut Header, SeqCst);
        let h = self.header();
        crate::sched::set_crumb(self.crumb_ptr(), CRUMB_CAP, &mut h.n_decisions as *mut u64);
        crate::sched::set_heartbeat(&mut h.heartbeat as *mut u64);
    }
    pub fn begin_run(&self, pos: u64) {
        let h = self.header();
        h.run_pos = pos;
        h.n_decisions = 0;
        h.panic_len = 0;
        h.in_run = 1;
    }
    pub fn end_run(&self) {
        self.header().in_run = 0;
    }
    pub fn out_append(&self, line: &str) {
        let h = self.header();
        let n = h.out_len as usize;
        let b = line.as_bytes();
        if n + b.len() + 1 > OUT_CAP {
            h.out_overflow = 1;
            return;
        }
        // SAFETY: bounds checked above; single writer
        unsafe {
            std::ptr::copy_nonoverlapping(b.as_ptr(), self.out_ptr().add(n), b.len());
            *self.out_ptr().add(n + b.len()) = b'\n';
        }
        h.out_len = (n + b.len() + 1) as u64;
    }
    pub fn out_text(&self) -> String {
        let n = self.header().out_len as usize;
        // SAFETY: out_len bytes were written by out_append
        let s = unsafe { std::slice::from_raw_parts(self.out_ptr(), n.min(OUT_CAP)) };
        String::from_utf8_lossy(s).into_owned()
    }
    pub fn decisions(&self) -> Vec<u8> {
        let n = (self.header().n_decisions as usize).min(CRUMB_CAP);
        // SAFETY: n bytes were written by the scheduler
        unsafe { std::slice::from_raw_parts(self.crumb_ptr(), n) }.to_vec()
    }
    pub fn panic_msg(&self) -> String {
        let h = self.header();
        let n = (h.panic_len as usize).min(PANIC_CAP);
        String::from_utf8_lossy(&h.panic_msg[..n]).into_owned()
    }
}

/// For the signal handler and the panic hook.
pub fn current() -> Option<&'static mut Header> {
    let p = CUR.load(SeqCst);
    if p.is_null() {
        None
    } else {
        // SAFETY: set by attach_child to a live mapping
        Some(unsafe { &mut *p })
    }
}

pub fn record_panic(msg: &str) {
    if let Some(h) = current() {
        let b = msg.as_bytes();
        let n = b.len().min(PANIC_CAP);
        h.panic_msg[..n].copy_from_slice(&b[..n]);
        h.panic_len = n as u64;
    }
}

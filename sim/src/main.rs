//! verif-sim: deterministic simulation with fault injection for NLnetLabs/roto.
//! See /verif/DESIGN.md.

mod alloc;
mod crash;
mod listx;
mod model;
mod rng;
mod runner;
mod scen_conc;
mod scen_life;
mod scen_list;
mod sendable;
mod sched;
mod shm;
mod tracked;
mod viol;
mod worker;

use serde::{Deserialize, Serialize};
use std::collections::BTreeMap;

#[global_allocator]
static A: alloc::SimAlloc = alloc::SimAlloc;

/// What one simulated run reports.
#[derive(Clone, Debug, Default, Serialize, Deserialize)]
pub struct RunResult {
    /// (class, detail); empty = the property held on this run
    pub violations: Vec<(String, String)>,
    pub counters: BTreeMap<String, u64>,
    pub steps: u64,
    pub trace_hash: u64,
    pub sig_hash: u64,
    pub preemptions: u64,
    pub decisions: Vec<u8>,
    #[serde(default)]
    pub nontrivial: bool,
    #[serde(default)]
    pub distinct_key: u64,
    #[serde(default)]
    pub extra: serde_json::Value,
    #[serde(default)]
    pub trace: Vec<String>,
}

pub const EXIT_OK: i32 = 0;
pub const EXIT_VIOLATION: i32 = 1;
pub const EXIT_HARNESS: i32 = 2;

fn usage() -> ! {
    eprintln!(
        "usage:
  verif-sim run <C11|C12|C15|C16> <quick|thorough> [--seed N] [--runs N] [--secs S] [--workers W] [--evidence PATH] [--no-known]
  verif-sim replay <file>
  verif-sim selfcheck determinism <prop> [--runs N]
  verif-sim selftest
  (internal) verif-sim worker ... | exec-many ..."
    );
    std::process::exit(EXIT_HARNESS)
}

fn main() {
    let args: Vec<String> = std::env::args().collect();
    if args.len() < 2 {
        usage();
    }
    let code = match args[1].as_str() {
        "run" => runner::cmd_run(&args[2..]),
        "replay" => runner::cmd_replay(&args[2..]),
        "selfcheck" => runner::cmd_selfcheck(&args[2..]),
        "selftest" => runner::cmd_selftest(),
        "worker" => worker::cmd_worker(&args[2..]),
        "exec-many" => worker::cmd_exec_many(&args[2..]),
        "exec-server" => worker::cmd_exec_server(&args[2..]),
        _ => usage(),
    };
    std::process::exit(code);
}

//! Worker process: warm-up once, then fork one child per block of runs
//! (DESIGN §2.5). Also `exec-many`: run explicit run descriptions, each in a
//! fresh child of the warmed image (replay and minimisation).

use crate::rng;
use crate::scen_list;
use crate::{RunResult, alloc, crash, listx, sched, shm::Shm};
use serde_json::{Value, json};
use std::collections::BTreeMap;
use std::io::Write;
use std::sync::{Arc, OnceLock};
use std::time::{Duration, Instant};

pub enum Warmed {
    List(Arc<listx::Warm>),
    Cold,
}

pub fn warm_for(prop: &str) -> Warmed {
    match prop {
        "C15" | "C16" => Warmed::List(Arc::new(listx::warm())),
        _ => Warmed::Cold,
    }
}

pub fn block_size(prop: &str) -> usize {
    match prop {
        "C15" | "C16" => 64,
        _ => 1,
    }
}

pub fn run_seed(verif_seed: u64, prop: &str, idx: u64) -> u64 {
    rng::derive(verif_seed, &[rng::label(prop), idx])
}

pub fn generate(prop: &str, thorough: bool, verif_seed: u64, idx: u64) -> Value {
    let rs = run_seed(verif_seed, prop, idx);
    match prop {
        "C16" => serde_json::to_value(scen_list::generate_c16(rs, thorough)).unwrap(),
        "C15" => serde_json::to_value(scen_list::generate_c15(rs, thorough, idx % 8 == 7)).unwrap(),
        "C11" if idx % 5 == 4 => serde_json::to_value(crate::scen_life::generate_owner_race(rs)).unwrap(),
        "C11" if idx % 10 == 7 => serde_json::to_value(crate::scen_life::generate_reload_loop(rs)).unwrap(),
        "C11" => serde_json::to_value(crate::scen_life::generate(rs, thorough)).unwrap(),
        "C12" if idx % 8 == 5 => serde_json::to_value(crate::scen_conc::generate_stringbuf(rs, thorough)).unwrap(),
        "C12" if idx % 8 == 1 => serde_json::to_value(crate::scen_conc::generate_call_race(rs)).unwrap(),
        "C12" => serde_json::to_value(crate::scen_conc::generate(rs, thorough, idx % 4 == 3)).unwrap(),
        _ => panic!("unknown property {prop}"),
    }
}

pub fn execute(warmed: &Warmed, desc: &Value, keep_trace: bool) -> RunResult {
    let prop = desc.get("property").and_then(|p| p.as_str()).unwrap_or("");
    match (prop, warmed) {
        ("C15", Warmed::List(w)) | ("C16", Warmed::List(w)) => {
            let d: scen_list::ListDesc = match serde_json::from_value(desc.clone()) {
                Ok(d) => d,
                Err(e) => {
                    let mut r = RunResult::default();
                    r.violations.push(("harness-error".into(), format!("bad run description: {e}")));
                    return r;
                }
            };
            let mut r = scen_list::execute(&d, w, keep_trace);
            if prop == "C16" {
                r.nontrivial = r.preemptions > 0;
                r.distinct_key = r.trace_hash;
            } else {
                let nops = d.threads.first().map(|t| t.ops.len()).unwrap_or(0);
                r.nontrivial = nops >= 3;
                r.distinct_key = rng::label(&serde_json::to_string(&d.threads).unwrap_or_default()) ^ (d.elem as u64);
            }
            r
        }
        ("C11", _) => {
            let d: crate::scen_life::LifeDesc = match serde_json::from_value(desc.clone()) {
                Ok(d) => d,
                Err(e) => {
                    let mut r = RunResult::default();
                    r.violations.push(("harness-error".into(), format!("bad run description: {e}")));
                    return r;
                }
            };
            let mut r = crate::scen_life::execute(&d, keep_trace);
            r.nontrivial = r.preemptions > 0;
            r.distinct_key = r.trace_hash;
            r
        }
        ("C12", _) => {
            let d: crate::scen_conc::ConcDesc = match serde_json::from_value(desc.clone()) {
                Ok(d) => d,
                Err(e) => {
                    let mut r = RunResult::default();
                    r.violations.push(("harness-error".into(), format!("bad run description: {e}")));
                    return r;
                }
            };
            let mut r = crate::scen_conc::execute(&d, keep_trace);
            r.nontrivial = r.preemptions > 0;
            r.distinct_key = r.trace_hash;
            r
        }
        _ => {
            let mut r = RunResult::default();
            r.violations.push(("harness-error".into(), format!("no executor for property {prop:?}")));
            r
        }
    }
}

static CHILD_SHM: OnceLock<Shm> = OnceLock::new();

fn child_fatal(class: &str, detail: &str) -> ! {
    let _mg = alloc::ModeGuard::new(alloc::MODE_PLAIN);
    if let Some(s) = CHILD_SHM.get() {
        let d = detail.replace(['\n', '\t'], " ");
        s.out_append(&format!("F\t{class}\t{d}"));
    }
    // SAFETY: terminate the whole child at once; other simulated threads are parked
    unsafe { libc::_exit(72) }
}

#[derive(Debug, Clone)]
pub struct Outcome {
    pub pos: usize,
    pub result: RunResult,
    /// the run did not complete in-process (deadlock, crash, timeout)
    pub fatal: bool,
    pub harness_error: Option<String>,
}

fn thread_states(pid: i32) -> Vec<char> {
    let mut v = Vec::new();
    if let Ok(rd) = std::fs::read_dir(format!("/proc/{pid}/task")) {
        for e in rd.flatten() {
            if let Ok(s) = std::fs::read_to_string(e.path().join("stat")) {
                if let Some(p) = s.rfind(')') {
                    if let Some(c) = s[p + 1..].trim_start().chars().next() {
                        v.push(c);
                    }
                }
            }
        }
    }
    v
}

/// Run the given descriptions, forking a fresh child whenever the previous one
/// ended a run fatally. `per_child` = how many runs one child may execute.
pub fn run_descs(shm: &Shm, warmed: &Warmed, descs: &[Value], per_child: usize, keep_trace: bool, run_timeout: Duration) -> Vec<Outcome> {
    let mut outcomes: Vec<Outcome> = Vec::new();
    let mut pos = 0usize;
    while pos < descs.len() {
        let end = (pos + per_child).min(descs.len());
        shm.reset();
        let _ = std::io::stdout().flush();
        // SAFETY: the worker is single-threaded here
        let pid = unsafe { libc::fork() };
        if pid < 0 {
            panic!("fork failed");
        }
        if pid == 0 {
            // ---- child
            // SAFETY: silence the child's stderr (abort messages of runs that are expected to die)
            unsafe {
                let n = libc::open(c"/dev/null".as_ptr(), libc::O_WRONLY);
                if n >= 0 && std::env::var_os("VERIF_CHILD_STDERR").is_none() {
                    libc::dup2(n, 2);
                }
            }
            shm.attach_child();
            let _ = CHILD_SHM.set(Shm { base: shm.base, len: shm.len });
            sched::set_fatal(child_fatal);
            for i in pos..end {
                shm.begin_run(i as u64);
                alloc::begin_run();
                let r = execute(warmed, &descs[i], keep_trace);
                let line = format!("R\t{i}\t{}", serde_json::to_string(&r).unwrap());
                shm.out_append(&line);
                shm.end_run();
            }
            // SAFETY: leave without running destructors/atexit of the forked image
            unsafe { libc::_exit(0) };
        }
        // ---- parent: wait with a watchdog
        let t0 = Instant::now();
        // Wall-clock limits are generous on purpose: a run that keeps reaching scheduling points is
        // bounded by its step cap, so only a run that makes *no* progress needs a clock - and on a
        // machine that is thrashing (measured here: everything 20-100 times slower under load) a
        // healthy run must not be taken for a spinning one.
        let limit = run_timeout * 4 * (end - pos).min(8) as u32;
        let mut status: libc::c_int = 0;
        let mut timed_out: Option<String> = None;
        let mut spin = 0u32;
        let mut last_beat = (u64::MAX, Instant::now());
        // a run with an instruction-level window may park a thread inside a critical section of a
        // primitive the seam does not cover (the interner's shard lock): the others then block in
        // the kernel, which is noticed sooner for such runs and costs the run, not the check
        let windowed = |d: &Value| !d["fine"].is_null() || !d["anchor"].is_null();
        let sleep_limit = if descs[pos..end].iter().any(windowed) { Duration::from_secs(2) } else { Duration::from_secs(8) };
        loop {
            // SAFETY: plain waitpid
            let r = unsafe { libc::waitpid(pid, &mut status, libc::WNOHANG) };
            if r == pid {
                break;
            }
            if r < 0 {
                panic!("waitpid failed");
            }
            // progress = scheduler steps, finished runs or output of the child
            let h = shm.header();
            let beat = h.heartbeat.wrapping_add(h.run_pos << 40).wrapping_add(h.out_len);
            if beat != last_beat.0 {
                last_beat = (beat, Instant::now());
            }
            let stalled = last_beat.1.elapsed();
            if t0.elapsed() > limit || stalled > sleep_limit {
                // who is stuck? running (spinning) or sleeping (blocked in the kernel on an un-hooked primitive)
                let a = thread_states(pid);
                std::thread::sleep(Duration::from_millis(50));
                let b = thread_states(pid);
                let running = a.iter().chain(b.iter()).any(|&c| c == 'R');
                if running && t0.elapsed() <= limit && stalled < Duration::from_secs(30) {
                    // busy but not at a scheduling point (a long compilation, single-stepping): give it time
                    std::thread::sleep(Duration::from_millis(20));
                    continue;
                }
                timed_out = Some(if running { "spinning".into() } else { "sleeping".into() });
                // SAFETY: kill the stuck child
                unsafe {
                    libc::kill(pid, libc::SIGKILL);
                    libc::waitpid(pid, &mut status, 0);
                }
                break;
            }
            spin += 1;
            if spin < 200 {
                std::thread::yield_now();
            } else {
                std::thread::sleep(Duration::from_micros(200));
            }
        }
        // ---- collect what the child wrote
        let text = shm.out_text();
        let mut fatal_line: Option<(String, String)> = None;
        let mut done_upto = pos;
        for line in text.lines() {
            let mut it = line.splitn(3, '\t');
            match it.next() {
                Some("R") => {
                    let i: usize = it.next().and_then(|x| x.parse().ok()).unwrap_or(usize::MAX);
                    let js = it.next().unwrap_or("");
                    match serde_json::from_str::<RunResult>(js) {
                        Ok(r) => {
                            outcomes.push(Outcome { pos: i, result: r, fatal: false, harness_error: None });
                            done_upto = i + 1;
                        }
                        Err(e) => outcomes.push(Outcome {
                            pos: i,
                            result: RunResult::default(),
                            fatal: false,
                            harness_error: Some(format!("unparsable result line: {e}")),
                        }),
                    }
                }
                Some("F") => {
                    let c = it.next().unwrap_or("fatal").to_string();
                    let d = it.next().unwrap_or("").to_string();
                    fatal_line = Some((c, d));
                }
                _ => {}
            }
        }
        let h = shm.header();
        let clean = libc::WIFEXITED(status) && libc::WEXITSTATUS(status) == 0 && timed_out.is_none();
        if clean && done_upto == end {
            pos = end;
            continue;
        }
        // the run in progress ended fatally
        let at = if h.in_run == 1 { h.run_pos as usize } else { done_upto };
        let mut r = RunResult::default();
        r.decisions = shm.decisions();
        r.steps = h.crash_step;
        let mut harness_error = None;
        if let Some(kind) = timed_out {
            if kind == "spinning" {
                r.violations.push(("non-termination".into(), "run made no progress for 30 s (or exceeded its wall budget) while a thread of the run was still executing (not blocked)".to_string()));
            } else if descs.get(at).map(windowed).unwrap_or(false) {
                // not a verdict about roto and not a failure of the harness: the preemption landed
                // where this simulator cannot schedule (inside an un-hooked critical section)
                r.counters.insert("runs".into(), 1);
                r.counters.insert("runs_discarded_window_inside_unhooked_critical_section".into(), 1);
            } else {
                harness_error = Some("simulator lost control: the run made no progress for 8 s and every thread of it is sleeping (blocked on a primitive the seam does not cover?)".to_string());
            }
        } else if let Some((c, d)) = fatal_line {
            r.violations.push((c, d));
        } else if h.crash_sig != 0 {
            let (c, d) = crash::describe(h);
            r.violations.push((c, d));
        } else if libc::WIFSIGNALED(status) {
            let sig = libc::WTERMSIG(status);
            r.violations.push(("crash".into(), format!("child killed by signal {sig} ({}) without a crash record", crash::sig_name(sig as u64))));
        } else if h.out_overflow != 0 {
            harness_error = Some("output region overflow".into());
        } else {
            let code = if libc::WIFEXITED(status) { libc::WEXITSTATUS(status) } else { -1 };
            let p = shm.panic_msg();
            if !p.is_empty() {
                // a panic in harness or roto code outside a simulated thread
                r.violations.push(("panic".into(), format!("child exited with code {code}; last panic: {p}")));
            } else {
                harness_error = Some(format!("child exited with code {code} in the middle of run {at}"));
            }
        }
        if at < descs.len() {
            outcomes.push(Outcome { pos: at, result: r, fatal: true, harness_error });
        }
        pos = at + 1;
    }
    outcomes.sort_by_key(|o| o.pos);
    outcomes
}

fn arg<'a>(args: &'a [String], name: &str) -> Option<&'a str> {
    args.iter().position(|a| a == name).and_then(|i| args.get(i + 1)).map(|s| s.as_str())
}

fn init_process() {
    alloc::init();
    crash::install();
    sched::install();
    sched::install_trap_handler();
}

/// `worker --prop P --tier T --seed S --wid I --workers W --runs N --deadline-ms D [--emit-runs] [--first IDX]`
pub fn cmd_worker(args: &[String]) -> i32 {
    init_process();
    let prop = arg(args, "--prop").unwrap().to_string();
    let thorough = arg(args, "--tier") == Some("thorough");
    let seed: u64 = arg(args, "--seed").unwrap().parse().unwrap();
    let wid: u64 = arg(args, "--wid").unwrap().parse().unwrap();
    let nw: u64 = arg(args, "--workers").unwrap().parse().unwrap();
    let total: u64 = arg(args, "--runs").unwrap().parse().unwrap();
    let deadline_ms: u64 = arg(args, "--deadline-ms").unwrap().parse().unwrap();
    let emit_runs = args.iter().any(|a| a == "--emit-runs");
    let samples: u64 = arg(args, "--samples").and_then(|s| s.parse().ok()).unwrap_or(0);
    // adaptive runs: blocks are claimed from a shared counter, and only workers below the
    // controller's limit are active
    let ctl = arg(args, "--ctl").map(|p| crate::runner::Ctl::open(std::path::Path::new(p), false).expect("control block"));
    let t0 = Instant::now();
    let warmed = warm_for(&prop);
    let shm = Shm::new();
    let b = block_size(&prop) as u64;
    let out = std::io::stdout();
    let mut block = wid;
    let mut runs_done = 0u64;
    let mut stopped_by_deadline = false;
    loop {
        if let Some(c) = &ctl {
            while wid >= c.limit() && (t0.elapsed().as_millis() as u64) <= deadline_ms && c.next_block() * b < total {
                std::thread::sleep(Duration::from_millis(20));
            }
            if t0.elapsed().as_millis() as u64 > deadline_ms {
                stopped_by_deadline = true;
                break;
            }
            block = c.claim_block();
        }
        let start = block * b;
        if start >= total {
            break;
        }
        if t0.elapsed().as_millis() as u64 > deadline_ms {
            stopped_by_deadline = true;
            break;
        }
        let idxs: Vec<u64> = (start..(start + b).min(total)).collect();
        let descs: Vec<Value> = idxs.iter().map(|&i| generate(&prop, thorough, seed, i)).collect();
        let outcomes = run_descs(&shm, &warmed, &descs, b as usize, false, Duration::from_secs(20));
        let mut counters: BTreeMap<String, u64> = BTreeMap::new();
        let mut keys: Vec<u64> = Vec::new();
        let mut lines = String::new();
        for o in &outcomes {
            let idx = idxs[o.pos];
            runs_done += 1;
            for (k, v) in &o.result.counters {
                *counters.entry(k.clone()).or_insert(0) += v;
            }
            if o.fatal {
                *counters.entry("runs".into()).or_insert(0) += 1;
                *counters.entry("runs_ended_fatally".into()).or_insert(0) += 1;
            }
            if o.result.nontrivial {
                keys.push(o.result.distinct_key);
            }
            if let Some(e) = &o.harness_error {
                lines.push_str(&json!({"t":"harness","idx":idx,"detail":e,"desc":descs[o.pos]}).to_string());
                lines.push('\n');
            } else if !o.result.violations.is_empty() {
                let mut d = descs[o.pos].clone();
                d["schedule"] = json!(o.result.decisions);
                lines.push_str(
                    &json!({"t":"viol","idx":idx,"desc":d,"violations":o.result.violations,"fatal":o.fatal,"steps":o.result.steps}).to_string(),
                );
                lines.push('\n');
            }
            if emit_runs {
                let h = rng::label(&serde_json::to_string(&(&o.result.violations, &o.result.counters, o.result.trace_hash, o.result.steps, &o.result.decisions, &o.result.extra)).unwrap());
                lines.push_str(&json!({"t":"run","idx":idx,"h":h,"th":o.result.trace_hash}).to_string());
                lines.push('\n');
            }
            if idx < samples {
                let mut d = descs[o.pos].clone();
                d["schedule"] = json!(o.result.decisions);
                lines.push_str(&json!({"t":"sample","idx":idx,"desc":d,"result":{"violations":o.result.violations,"steps":o.result.steps,"preemptions":o.result.preemptions,"extra":o.result.extra}}).to_string());
                lines.push('\n');
            }
        }
        lines.push_str(&json!({"t":"blk","w":wid,"n":outcomes.len(),"counters":counters,"keys":keys}).to_string());
        lines.push('\n');
        let mut l = out.lock();
        let _ = l.write_all(lines.as_bytes());
        let _ = l.flush();
        drop(l);
        // "cannot decide": once the simulator lost control there is no point in going on
        if outcomes.iter().any(|o| o.harness_error.as_deref().is_some_and(|e| e.contains("lost control"))) {
            break;
        }
        block += nw;
    }
    let mut l = out.lock();
    let _ = writeln!(l, "{}", json!({"t":"done","w":wid,"runs":runs_done,"deadline":stopped_by_deadline,"ms":t0.elapsed().as_millis() as u64}));
    let _ = l.flush();
    0
}

/// `exec-many <in.json> <out.json> [--trace]`: in = array of run descriptions;
/// each is executed in its own fresh child of the warmed image.
pub fn cmd_exec_many(args: &[String]) -> i32 {
    init_process();
    let inp = &args[0];
    let outp = &args[1];
    let keep_trace = args.iter().any(|a| a == "--trace");
    let descs: Vec<Value> = serde_json::from_str(&std::fs::read_to_string(inp).expect("read input")).expect("parse input");
    if descs.is_empty() {
        std::fs::write(outp, "[]").unwrap();
        return 0;
    }
    let prop = descs[0].get("property").and_then(|p| p.as_str()).unwrap_or("").to_string();
    let warmed = warm_for(&prop);
    let shm = Shm::new();
    let outcomes = run_descs(&shm, &warmed, &descs, 1, keep_trace, Duration::from_secs(20));
    let mut out = Vec::new();
    for o in outcomes {
        out.push(json!({
            "pos": o.pos,
            "fatal": o.fatal,
            "harness_error": o.harness_error,
            "result": o.result,
        }));
    }
    std::fs::write(outp, serde_json::to_string(&out).unwrap()).unwrap();
    0
}

/// `exec-server [--trace]`: one JSON run description per stdin line, one JSON
/// outcome per stdout line; each description runs in its own fresh child of
/// the warmed image (the image is warmed for the property of the first line).
pub fn cmd_exec_server(args: &[String]) -> i32 {
    init_process();
    let keep_trace = args.iter().any(|a| a == "--trace");
    let stdin = std::io::stdin();
    let mut warmed: Option<(String, Warmed)> = None;
    let shm = Shm::new();
    let mut line = String::new();
    loop {
        line.clear();
        match stdin.read_line(&mut line) {
            Ok(0) | Err(_) => break,
            Ok(_) => {}
        }
        let desc: Value = match serde_json::from_str(&line) {
            Ok(v) => v,
            Err(e) => {
                println!("{}", json!({"harness_error": format!("bad description: {e}"), "result": RunResult::default(), "fatal": false}));
                continue;
            }
        };
        let prop = desc.get("property").and_then(|p| p.as_str()).unwrap_or("").to_string();
        if warmed.as_ref().map(|(p, _)| p != &prop).unwrap_or(true) {
            warmed = Some((prop.clone(), warm_for(&prop)));
        }
        let outcomes = run_descs(&shm, &warmed.as_ref().unwrap().1, std::slice::from_ref(&desc), 1, keep_trace, Duration::from_secs(20));
        let o = &outcomes[0];
        let mut out = std::io::stdout().lock();
        let _ = writeln!(out, "{}", json!({"fatal": o.fatal, "harness_error": o.harness_error, "result": o.result}));
        let _ = out.flush();
    }
    0
}

//! Runner: starts the workers, aggregates what they report, minimises and
//! re-verifies violations, matches them against /verif/known_findings.json,
//! writes the evidence file and decides the exit code.

use crate::scen_list;
use crate::{EXIT_HARNESS, EXIT_OK, EXIT_VIOLATION};
use serde_json::{Value, json};
use std::collections::{BTreeMap, HashMap, HashSet};
use std::io::{BufRead, BufReader};
use std::os::unix::process::CommandExt;
use std::path::{Path, PathBuf};
use std::process::{Command, Stdio};
use std::sync::atomic::{AtomicU64, Ordering::SeqCst};
use std::time::{Duration, Instant};

fn arg<'a>(args: &'a [String], name: &str) -> Option<&'a str> {
    args.iter().position(|a| a == name).and_then(|i| args.get(i + 1)).map(|s| s.as_str())
}

pub fn verif_root() -> PathBuf {
    if let Ok(p) = std::env::var("VERIF_ROOT") {
        return PathBuf::from(p);
    }
    // <root>/sim/target/release/verif-sim
    let exe = std::env::current_exe().unwrap_or_else(|_| PathBuf::from("/verif/sim/target/release/verif-sim"));
    exe.ancestors().nth(4).map(|p| p.to_path_buf()).unwrap_or_else(|| PathBuf::from("/verif"))
}

fn shim_path() -> PathBuf {
    if let Ok(p) = std::env::var("VERIF_SHIM") {
        return PathBuf::from(p);
    }
    verif_root().join("shim/getrandom_shim.so")
}

/// The CPUs this process may run on.
fn allowed_cpus() -> Vec<usize> {
    // SAFETY: plain libc calls on a zeroed cpu_set_t
    unsafe {
        let mut set: libc::cpu_set_t = std::mem::zeroed();
        if libc::sched_getaffinity(0, std::mem::size_of::<libc::cpu_set_t>(), &mut set) != 0 {
            return Vec::new();
        }
        (0..libc::CPU_SETSIZE as usize).filter(|&i| libc::CPU_ISSET(i, &set)).collect()
    }
}

/// A command that runs this binary with the constant-`getrandom` shim preloaded and ASLR off,
/// pinned to one CPU (the `slot`-th of the allowed ones). Only one simulated thread of a worker
/// runs at any time, so one CPU loses nothing; every hand-over between simulated threads then is
/// a context switch on that CPU instead of a wake-up across CPUs - on a virtual machine whose
/// CPUs are being stolen by the host the latter costs milliseconds (measured here: thread
/// creation 21 us pinned, 1.8 ms unpinned).
fn self_cmd_on(slot: usize) -> Command {
    let exe = std::env::current_exe().expect("current_exe");
    let mut c = Command::new(exe);
    c.env("LD_PRELOAD", shim_path());
    // (no lazy binding: which libc symbols the worker's image has resolved before a fork depends on
    // how many runs it has done, and the dynamic linker's resolver would be single-stepped - and
    // counted - inside an instruction-level window of the child)
    c.env("LD_BIND_NOW", "1");
    c.env_remove("RUST_BACKTRACE");
    let cpus = allowed_cpus();
    let cpu = if cpus.is_empty() || std::env::var_os("VERIF_NO_PIN").is_some() { None } else { Some(cpus[slot % cpus.len()]) };
    // SAFETY: personality() and sched_setaffinity() are async-signal-safe
    unsafe {
        c.pre_exec(move || {
            libc::personality(libc::ADDR_NO_RANDOMIZE as libc::c_ulong);
            if let Some(cpu) = cpu {
                let mut set: libc::cpu_set_t = std::mem::zeroed();
                libc::CPU_SET(cpu, &mut set);
                libc::sched_setaffinity(0, std::mem::size_of::<libc::cpu_set_t>(), &set);
            }
            Ok(())
        });
    }
    c
}
fn self_cmd() -> Command {
    self_cmd_on(0)
}

struct Tier {
    runs: u64,
    secs: u64,
}

fn tier_for(prop: &str, thorough: bool) -> Tier {
    match (prop, thorough) {
        ("C16", false) => Tier { runs: 800_000, secs: 75 },
        ("C16", true) => Tier { runs: 30_000_000, secs: 1200 },
        ("C15", false) => Tier { runs: 600_000, secs: 75 },
        ("C15", true) => Tier { runs: 30_000_000, secs: 1200 },
        ("C12", false) => Tier { runs: 12_000, secs: 75 },
        (_, false) => Tier { runs: 16_000, secs: 75 },
        (_, true) => Tier { runs: 2_000_000, secs: 1200 },
    }
}

#[derive(Default)]
struct Agg {
    runs: u64,
    counters: BTreeMap<String, u64>,
    keys: HashSet<u64>,
    nontrivial: u64,
    viols: Vec<Value>,
    harness: Vec<Value>,
    samples: Vec<Value>,
    run_hashes: HashMap<u64, (u64, u64)>,
    deadline_hit: bool,
    workers_done: u64,
}

/// Runs seen so far by the reader threads of `run_workers` (for the controller of adaptive runs).
static RUNS_SEEN: AtomicU64 = AtomicU64::new(0);
/// Where the adaptive controller settled (0 = not adaptive).
pub static SETTLED_WORKERS: AtomicU64 = AtomicU64::new(0);

/// Control block shared with the workers of an adaptive run (a file mapped MAP_SHARED):
/// word 0 = next block to claim, word 1 = how many workers may be active.
pub struct Ctl {
    ptr: *mut AtomicU64,
    pub path: PathBuf,
}
// SAFETY: the mapping stays valid for the life of the process; all access is atomic
unsafe impl Send for Ctl {}
unsafe impl Sync for Ctl {}
impl Ctl {
    pub fn open(path: &std::path::Path, create: bool) -> Result<Ctl, String> {
        use std::os::fd::AsRawFd;
        let f = std::fs::OpenOptions::new().read(true).write(true).create(create).truncate(create).open(path).map_err(|e| format!("{}: {e}", path.display()))?;
        if create {
            f.set_len(4096).map_err(|e| e.to_string())?;
        }
        // SAFETY: maps a regular file of one page
        let p = unsafe { libc::mmap(std::ptr::null_mut(), 4096, libc::PROT_READ | libc::PROT_WRITE, libc::MAP_SHARED, f.as_raw_fd(), 0) };
        if p == libc::MAP_FAILED {
            return Err("mmap of the control block failed".into());
        }
        Ok(Ctl { ptr: p as *mut AtomicU64, path: path.to_path_buf() })
    }
    fn word(&self, i: usize) -> &AtomicU64 {
        // SAFETY: inside the mapped page
        unsafe { &*self.ptr.add(i) }
    }
    pub fn claim_block(&self) -> u64 {
        self.word(0).fetch_add(1, SeqCst)
    }
    pub fn next_block(&self) -> u64 {
        self.word(0).load(SeqCst)
    }
    pub fn limit(&self) -> u64 {
        self.word(1).load(SeqCst)
    }
    pub fn set_limit(&self, n: u64) {
        self.word(1).store(n, SeqCst)
    }
}

/// Adaptive runs: how many of the started workers are active is decided while the run proceeds.
/// Process creation, thread creation and page faults do not scale across processes on every
/// virtual machine (measured on this one, on a bad day: 4 pinned workers complete 3 000 list runs
/// per second, 16 complete 700; on a good day 16 complete 20 000). The controller measures the
/// rate of completed runs at 16, 8, 4 and 2 active workers for a couple of seconds each, tries the
/// neighbours of the best, settles there, and repeats that now and then in long runs. Workers
/// claim blocks of run indices from a shared counter, so the explored runs are a prefix of the
/// index space whatever the controller does; run i is the same execution whoever executes it.
fn controller(ctl: std::sync::Arc<Ctl>, stop: std::sync::Arc<std::sync::atomic::AtomicBool>, max_w: u64, secs: u64) {
    use std::sync::atomic::Ordering::SeqCst;
    let nap = |ms: u64| -> bool {
        let t = Instant::now();
        while (t.elapsed().as_millis() as u64) < ms {
            if stop.load(SeqCst) {
                return false;
            }
            std::thread::sleep(std::time::Duration::from_millis(25));
        }
        true
    };
    // warm-up of the workers: wait for the first completed block
    let t0 = Instant::now();
    while RUNS_SEEN.load(SeqCst) == 0 && t0.elapsed().as_secs() < 30 {
        if !nap(50) {
            return;
        }
    }
    let dur = (secs * 1000 / 30).clamp(1500, 4000);
    let measure = |n: u64, settle: u64| -> Option<f64> {
        ctl.set_limit(n);
        if !nap(settle) {
            return None;
        }
        let (r0, t) = (RUNS_SEEN.load(SeqCst), Instant::now());
        if !nap(dur) {
            return None;
        }
        Some((RUNS_SEEN.load(SeqCst) - r0) as f64 / t.elapsed().as_secs_f64())
    };
    loop {
        // upwards from two workers, doubling while the rate still grows: the collapsed region (where
        // a block of runs takes seconds) is entered at most once, and left again at once
        let mut tried: Vec<(u64, f64)> = Vec::new();
        let mut n = 2u64.min(max_w);
        loop {
            match measure(n, 300) {
                Some(r) => tried.push((n, r)),
                None => return,
            }
            let k = tried.len();
            if n >= max_w || (k >= 2 && tried[k - 1].1 < tried[k - 2].1 * 1.1) {
                break;
            }
            n = (n * 2).min(max_w);
        }
        let best = |v: &[(u64, f64)]| v.iter().cloned().fold((1u64, -1.0f64), |a, b| if b.1 > a.1 { b } else { a });
        let (b, b_rate) = best(&tried);
        let collapsed_above = tried.iter().any(|t| t.0 > b && t.1 < b_rate * 0.5);
        // Back to the best, and wait until its rate is back as well: blocks started by workers
        // that are now paused must drain, and a collapsed machine takes a while to recover.
        ctl.set_limit(b);
        for _ in 0..12 {
            let (r0, t) = (RUNS_SEEN.load(SeqCst), Instant::now());
            if !nap(500) {
                return;
            }
            if (RUNS_SEEN.load(SeqCst) - r0) as f64 / t.elapsed().as_secs_f64() >= b_rate * 0.6 {
                break;
            }
        }
        // its neighbours: three quarters, and - unless doubling already collapsed - one and a half
        let mut cands = vec![(b * 3 / 4).max(1)];
        if !collapsed_above {
            cands.push((b * 3 / 2).min(max_w));
        }
        for cand in cands {
            if !tried.iter().any(|t| t.0 == cand) {
                match measure(cand, 500) {
                    Some(r) => tried.push((cand, r)),
                    None => return,
                }
            }
        }
        let b = best(&tried).0;
        ctl.set_limit(b);
        SETTLED_WORKERS.store(b, SeqCst);
        *CONTROLLER_LOG.lock().unwrap() = tried.iter().map(|(n, r)| format!("{n}: {r:.0}/s")).collect::<Vec<_>>().join(", ");
        // long runs: measure again every two minutes
        if !nap(120_000) {
            return;
        }
    }
}

static CONTROLLER_LOG: std::sync::Mutex<String> = std::sync::Mutex::new(String::new());

fn run_workers(prop: &str, thorough: bool, seed: u64, runs: u64, secs: u64, workers: u64, emit_runs: bool, samples: u64) -> Result<Agg, String> {
    run_workers_x(prop, thorough, seed, runs, secs, workers, emit_runs, samples, false)
}

#[allow(clippy::too_many_arguments)]
fn run_workers_x(prop: &str, thorough: bool, seed: u64, runs: u64, secs: u64, workers: u64, emit_runs: bool, samples: u64, adaptive: bool) -> Result<Agg, String> {
    if !shim_path().exists() {
        return Err(format!("getrandom shim {} is missing (run setup)", shim_path().display()));
    }
    RUNS_SEEN.store(0, SeqCst);
    let ctl = if adaptive {
        let path = verif_root().join(format!(".work/ctl-{}.bin", std::process::id()));
        let c = std::sync::Arc::new(Ctl::open(&path, true)?);
        c.set_limit(2u64.min(workers));
        Some(c)
    } else {
        None
    };
    let stop = std::sync::Arc::new(std::sync::atomic::AtomicBool::new(false));
    let ctl_thread = ctl.clone().map(|c| {
        let stop = stop.clone();
        std::thread::spawn(move || controller(c, stop, workers, secs))
    });
    let mut children = Vec::new();
    for w in 0..workers {
        let mut c = self_cmd_on(w as usize);
        if let Some(ctl) = &ctl {
            c.arg("worker").arg("--ctl").arg(&ctl.path);
        } else {
            c.arg("worker");
        }
        c
            .args(["--prop", prop, "--tier", if thorough { "thorough" } else { "quick" }])
            .args(["--seed", &seed.to_string(), "--wid", &w.to_string(), "--workers", &workers.to_string()])
            .args(["--runs", &runs.to_string(), "--deadline-ms", &(secs * 1000).to_string()])
            .args(["--samples", &samples.to_string()]);
        if emit_runs {
            c.arg("--emit-runs");
        }
        c.stdout(Stdio::piped()).stderr(Stdio::inherit()).stdin(Stdio::null());
        let mut ch = c.spawn().map_err(|e| format!("cannot start worker: {e}"))?;
        let out = ch.stdout.take().unwrap();
        let h = std::thread::spawn(move || {
            let mut a = Agg::default();
            for line in BufReader::new(out).lines() {
                let Ok(line) = line else { break };
                let Ok(v) = serde_json::from_str::<Value>(&line) else {
                    a.harness.push(json!({"detail": format!("unparsable worker line: {}", &line[..line.len().min(200)])}));
                    continue;
                };
                match v["t"].as_str() {
                    Some("blk") => {
                        a.runs += v["n"].as_u64().unwrap_or(0);
                        RUNS_SEEN.fetch_add(v["n"].as_u64().unwrap_or(0), SeqCst);
                        if let Some(m) = v["counters"].as_object() {
                            for (k, x) in m {
                                *a.counters.entry(k.clone()).or_insert(0) += x.as_u64().unwrap_or(0);
                            }
                        }
                        if let Some(ks) = v["keys"].as_array() {
                            a.nontrivial += ks.len() as u64;
                            for k in ks {
                                a.keys.insert(k.as_u64().unwrap_or(0));
                            }
                        }
                    }
                    Some("viol") => a.viols.push(v),
                    Some("harness") => a.harness.push(v),
                    Some("sample") => a.samples.push(v),
                    Some("run") => {
                        a.run_hashes.insert(v["idx"].as_u64().unwrap_or(0), (v["h"].as_u64().unwrap_or(0), v["th"].as_u64().unwrap_or(0)));
                    }
                    Some("done") => {
                        a.workers_done += 1;
                        if v["deadline"].as_bool() == Some(true) {
                            a.deadline_hit = true;
                        }
                    }
                    _ => {}
                }
            }
            a
        });
        children.push((ch, h));
    }
    let mut total = Agg::default();
    for (mut ch, h) in children {
        let a = h.join().map_err(|_| "reader thread panicked".to_string())?;
        let st = ch.wait().map_err(|e| e.to_string())?;
        if !st.success() {
            total.harness.push(json!({"detail": format!("worker exited with {st}")}));
        }
        total.runs += a.runs;
        for (k, v) in a.counters {
            *total.counters.entry(k).or_insert(0) += v;
        }
        total.nontrivial += a.nontrivial;
        total.keys.extend(a.keys);
        total.viols.extend(a.viols);
        total.harness.extend(a.harness);
        total.samples.extend(a.samples);
        total.run_hashes.extend(a.run_hashes);
        total.deadline_hit |= a.deadline_hit;
        total.workers_done += a.workers_done;
    }
    stop.store(true, SeqCst);
    if let Some(t) = ctl_thread {
        let _ = t.join();
    }
    if let Some(c) = &ctl {
        let _ = std::fs::remove_file(&c.path);
    }
    if total.workers_done != workers {
        total.harness.push(json!({"detail": format!("only {} of {} workers finished", total.workers_done, workers)}));
    }
    total.viols.sort_by_key(|v| v["idx"].as_u64().unwrap_or(0));
    total.samples.sort_by_key(|v| v["idx"].as_u64().unwrap_or(0));
    Ok(total)
}

fn work_dir() -> PathBuf {
    let d = verif_root().join(".work");
    let _ = std::fs::create_dir_all(&d);
    d
}

/// Execute explicit run descriptions, each in a fresh child; `par` processes in parallel.
pub fn exec_descs(descs: &[Value], par: usize, trace: bool) -> Result<Vec<Value>, String> {
    if descs.is_empty() {
        return Ok(vec![]);
    }
    let par = par.max(1).min(descs.len());
    let chunk = descs.len().div_ceil(par);
    let wd = work_dir();
    let tag = format!("{}-{:x}", std::process::id(), Instant::now().elapsed().as_nanos() as u64 ^ descs.len() as u64);
    let mut procs = Vec::new();
    for (k, c) in descs.chunks(chunk).enumerate() {
        let inp = wd.join(format!("in-{tag}-{k}.json"));
        let outp = wd.join(format!("out-{tag}-{k}.json"));
        std::fs::write(&inp, serde_json::to_string(c).unwrap()).map_err(|e| e.to_string())?;
        let mut cmd = self_cmd();
        cmd.arg("exec-many").arg(&inp).arg(&outp);
        if trace {
            cmd.arg("--trace");
        }
        cmd.stdin(Stdio::null());
        let ch = cmd.spawn().map_err(|e| e.to_string())?;
        procs.push((ch, inp, outp, c.len()));
    }
    let mut all = Vec::new();
    for (mut ch, inp, outp, n) in procs {
        let st = ch.wait().map_err(|e| e.to_string())?;
        let txt = std::fs::read_to_string(&outp).unwrap_or_default();
        let _ = std::fs::remove_file(&inp);
        let _ = std::fs::remove_file(&outp);
        if !st.success() {
            return Err(format!("exec-many exited with {st}"));
        }
        let mut v: Vec<Value> = serde_json::from_str(&txt).map_err(|e| format!("exec-many output: {e}"))?;
        if v.len() != n {
            return Err(format!("exec-many returned {} outcomes for {} descriptions", v.len(), n));
        }
        all.append(&mut v);
    }
    Ok(all)
}

fn first_violation(outcome: &Value) -> Option<(String, String)> {
    let v = outcome["result"]["violations"].as_array()?;
    let f = v.first()?.as_array()?;
    Some((f.first()?.as_str()?.to_string(), f.get(1)?.as_str()?.to_string()))
}

fn shrink(desc: &Value) -> Vec<Value> {
    match desc["property"].as_str() {
        Some("C15") | Some("C16") => match serde_json::from_value::<scen_list::ListDesc>(desc.clone()) {
            Ok(d) => scen_list::shrink(&d).into_iter().map(|x| serde_json::to_value(x).unwrap()).collect(),
            Err(_) => vec![],
        },
        Some("C12") => match serde_json::from_value::<crate::scen_conc::ConcDesc>(desc.clone()) {
            Ok(d) => crate::scen_conc::shrink(&d).into_iter().map(|x| serde_json::to_value(x).unwrap()).collect(),
            Err(_) => vec![],
        },
        Some("C11") => match serde_json::from_value::<crate::scen_life::LifeDesc>(desc.clone()) {
            Ok(d) => crate::scen_life::shrink(&d).into_iter().map(|x| serde_json::to_value(x).unwrap()).collect(),
            Err(_) => vec![],
        },
        _ => vec![],
    }
}

/// A pool of persistent `exec-server` processes (each forks a fresh child per description).
pub struct ExecPool {
    servers: Vec<(std::process::Child, std::process::ChildStdin, BufReader<std::process::ChildStdout>)>,
}

impl ExecPool {
    pub fn new(n: usize) -> Result<ExecPool, String> {
        let mut servers = Vec::new();
        for k in 0..n {
            let mut c = self_cmd_on(k);
            c.arg("exec-server").stdin(Stdio::piped()).stdout(Stdio::piped()).stderr(Stdio::inherit());
            let mut ch = c.spawn().map_err(|e| e.to_string())?;
            let i = ch.stdin.take().unwrap();
            let o = BufReader::new(ch.stdout.take().unwrap());
            servers.push((ch, i, o));
        }
        Ok(ExecPool { servers })
    }
    /// Evaluate all descriptions (in parallel); outcome k belongs to description k.
    pub fn eval(&mut self, descs: &[Value]) -> Vec<Value> {
        use std::io::Write;
        let n = self.servers.len();
        let mut out: Vec<Value> = vec![Value::Null; descs.len()];
        let lines: Vec<String> = descs.iter().map(|d| serde_json::to_string(d).unwrap()).collect();
        std::thread::scope(|sc| {
            let mut handles = Vec::new();
            for (k, srv) in self.servers.iter_mut().enumerate() {
                let lines = &lines;
                handles.push(sc.spawn(move || {
                    let mut res = Vec::new();
                    let mut i = k;
                    while i < lines.len() {
                        let ok = writeln!(srv.1, "{}", lines[i]).and_then(|_| srv.1.flush()).is_ok();
                        let mut l = String::new();
                        let v = if ok && srv.2.read_line(&mut l).map(|x| x > 0).unwrap_or(false) {
                            serde_json::from_str::<Value>(&l).unwrap_or(json!({"harness_error": "unparsable outcome"}))
                        } else {
                            json!({"harness_error": "exec-server died"})
                        };
                        res.push((i, v));
                        i += n;
                    }
                    res
                }));
            }
            for h in handles {
                for (i, v) in h.join().unwrap_or_default() {
                    out[i] = v;
                }
            }
        });
        out
    }
}

impl Drop for ExecPool {
    fn drop(&mut self) {
        for (mut ch, i, _) in self.servers.drain(..) {
            drop(i);
            let _ = ch.wait();
        }
    }
}

/// Variants of a candidate that differ only in how it is scheduled: the
/// recorded schedule literally, then a few seeded strategies.
fn schedule_variants(c: &Value, workload_changed: bool) -> Vec<Value> {
    let mut v = vec![c.clone()];
    let nthreads = c["threads"].as_array().map(|t| t.len()).unwrap_or(0) + c["callers"].as_array().map(|t| t.len()).unwrap_or(0) + c["compilers"].as_array().map(|t| t.len()).unwrap_or(0) + c["sb_ops"].as_array().map(|t| t.len()).unwrap_or(0);
    if workload_changed && nthreads > 1 {
        let base = c["sched_seed"].as_u64().unwrap_or(1);
        for (k, st) in ["targeted", "uniform", "sticky80", "targeted", "pct2/12", "uniform"].iter().enumerate() {
            let mut x = c.clone();
            x["schedule"] = Value::Null;
            x["strategy"] = json!(st);
            x["sched_seed"] = json!(crate::rng::derive(base, &[k as u64]));
            v.push(x);
        }
    }
    v
}

/// Lexicographic size of a run description (smaller = simpler).
fn desc_size(d: &Value) -> Vec<u64> {
    let js = |v: &Value| serde_json::to_string(v).map(|s| s.len() as u64).unwrap_or(0);
    let arrs = |k: &str| d[k].as_array().cloned().unwrap_or_default();
    let threads = (arrs("threads").len() + arrs("callers").len() + arrs("compilers").len() + arrs("sb_ops").len()) as u64;
    let ops: u64 = d["threads"]
        .as_array()
        .map(|t| t.iter().map(|x| x.as_array().map(|o| o.len() as u64).unwrap_or_else(|| x["ops"].as_array().map(|o| o.len() as u64).unwrap_or(0))).sum())
        .unwrap_or(0)
        + d["setup"].as_array().map(|o| o.len() as u64).unwrap_or(0)
        + arrs("callers").iter().chain(arrs("compilers").iter()).chain(arrs("sb_ops").iter()).map(|x| x.as_array().map(|o| o.len() as u64).unwrap_or(0)).sum::<u64>();
    let faults = d["faults"].as_array().map(|t| t.len() as u64).unwrap_or(0);
    let sched: Vec<u64> = d["schedule"].as_array().map(|a| a.iter().map(|x| x.as_u64().unwrap_or(0)).collect()).unwrap_or_default();
    let switches = sched.windows(2).filter(|w| w[0] != w[1]).count() as u64;
    vec![threads, ops, faults, js(&d["init"]) + js(&d["threads"]) + js(&d["setup"]) + js(&d["callers"]) + js(&d["compilers"]) + js(&d["sb_ops"]), switches, sched.len() as u64]
}

/// Greedy minimisation: walk the one-step simplifications in order (simplest
/// first), accept the first that still fails with the same violation class,
/// continue from the same position.
fn minimise(desc: &Value, class: &str, budget: Duration) -> (Value, u64) {
    let t0 = Instant::now();
    let mut cur = desc.clone();
    let mut tried = 0u64;
    let Ok(mut pool) = ExecPool::new(16) else { return (cur, 0) };
    let mut rounds = 0;
    loop {
        rounds += 1;
        let mut improved = false;
        let mut cands = shrink(&cur);
        let mut i = 0usize;
        while i < cands.len() && t0.elapsed() < budget {
            let hi = (i + 24).min(cands.len());
            let mut flat: Vec<Value> = Vec::new();
            let mut owner: Vec<usize> = Vec::new();
            for (k, c) in cands[i..hi].iter().enumerate() {
                let changed = c["threads"] != cur["threads"] || c["init"] != cur["init"] || c["faults"] != cur["faults"] || c["setup"] != cur["setup"] || c["callers"] != cur["callers"] || c["compilers"] != cur["compilers"] || c["sb_ops"] != cur["sb_ops"];
                for v in schedule_variants(c, changed) {
                    flat.push(v);
                    owner.push(k);
                }
            }
            tried += flat.len() as u64;
            let outs = pool.eval(&flat);
            let mut hit: Option<(usize, Value)> = None;
            for (j, o) in outs.iter().enumerate() {
                if o["harness_error"].is_string() {
                    continue;
                }
                if let Some((cl, _)) = first_violation(o) {
                    if cl == class {
                        let mut next = flat[j].clone();
                        next["schedule"] = o["result"]["decisions"].clone();
                        if desc_size(&next) < desc_size(&cur) {
                            hit = Some((owner[j], next));
                            break;
                        }
                    }
                }
            }
            match hit {
                Some((k, next)) => {
                    cur = next;
                    improved = true;
                    cands = shrink(&cur);
                    i += k; // continue near the same position in the new candidate list
                }
                None => i = hi,
            }
        }
        if !improved || t0.elapsed() >= budget || rounds > 50 {
            break;
        }
    }
    (cur, tried)
}

#[derive(Clone, Debug)]
struct Known {
    replay: Option<String>,
    id: String,
    property: String,
    status: String,
    class: String,
    contains: Vec<String>,
    what: String,
}

fn load_known() -> Vec<Known> {
    let p = verif_root().join("known_findings.json");
    let Ok(t) = std::fs::read_to_string(&p) else { return vec![] };
    let Ok(v) = serde_json::from_str::<Value>(&t) else { return vec![] };
    let mut out = Vec::new();
    for e in v["findings"].as_array().cloned().unwrap_or_default() {
        out.push(Known {
            replay: e["replay"].as_str().map(String::from),
            id: e["id"].as_str().unwrap_or("").into(),
            property: e["property"].as_str().unwrap_or("").into(),
            status: e["status"].as_str().unwrap_or("").into(),
            class: e["match"]["class"].as_str().unwrap_or("").into(),
            contains: e["match"]["detail_contains"].as_array().map(|a| a.iter().filter_map(|x| x.as_str().map(String::from)).collect()).unwrap_or_default(),
            what: e["what"].as_str().unwrap_or("").into(),
        });
    }
    out
}

fn matches_known<'a>(known: &'a [Known], prop: &str, class: &str, detail: &str) -> Option<&'a Known> {
    known
        .iter()
        .find(|k| k.status == "open" && k.property == prop && k.class == class && k.contains.iter().all(|c| detail.contains(c.as_str())))
}

fn components(prop: &str) -> Value {
    let _ = prop;
    json!({
        "real": ["roto parser, type checker, MIR/LIR lowering, cranelift code generation", "generated machine code", "roto::List / ErasedList / RawList, StringBuf, type registry", "cranelift-jit memory provider", "symbol_table interner", "std::thread OS threads (parked one at a time)"],
        "shimmed": ["std::sync::Mutex in list.rs/string_buf.rs/value/mod.rs -> roto::verif::sync::Mutex (wrapper around the real std mutex, reports acquire/release)", "global allocator -> SimAlloc (bump arena, always-move realloc, 0xCD/0xDD poison, quarantine, PROT_NONE for freed JIT pages, canaries)", "getrandom(2) -> constant bytes (LD_PRELOAD), ASLR off"],
        "test_doubles": ["element types T24 / Zst (drop-tracked)", "registered host functions of the harness libraries"]
    })
}

pub const PROBES: [&str; 10] = [
    "ok_handles_are_send_sync",
    "p1_cell_closure",
    "p2_rc_closure",
    "p3_nonsync_constant",
    "p4_nonsync_type",
    "p5_list_of_nonsync",
    "p6_refcell_closure",
    "p7_receiver_closure",
    "p8_rc_argument",
    "p9_fnmut_closure",
];

#[derive(Debug)]
pub enum ProbeVerdict {
    /// rustc refused it with a Send/Sync trait-bound error: this route is closed
    Rejected,
    /// rustc accepted a safe-Rust program that shares non-thread-safe state between threads
    Accepted { native: String },
    Harness(String),
}

/// C12 Part C: compile one safe-Rust probe program against /repo's working tree.
pub fn run_probe(name: &str) -> ProbeVerdict {
    let dir = verif_root().join("probes");
    let out = Command::new("cargo")
        .current_dir(&dir)
        .env("CARGO_NET_OFFLINE", "true")
        .args(["check", "--offline", "--quiet", "--message-format=short", "--bin", name])
        .output();
    let out = match out {
        Ok(o) => o,
        Err(e) => return ProbeVerdict::Harness(format!("cannot run cargo: {e}")),
    };
    let err = String::from_utf8_lossy(&out.stderr).to_string();
    if name.starts_with("ok_") {
        // positive probe: must compile
        return if out.status.success() {
            ProbeVerdict::Rejected
        } else if err.contains("error[E0277]") && (err.contains("cannot be shared between threads safely") || err.contains("cannot be sent between threads safely")) {
            ProbeVerdict::Accepted { native: format!("rustc refuses to send/share a handle or list between threads: {}", err.lines().filter(|l| l.contains("error[")).take(2).collect::<Vec<_>>().join(" | ").chars().take(400).collect::<String>()) }
        } else {
            ProbeVerdict::Harness(format!("positive probe {name} does not compile: {}", err.lines().filter(|l| l.contains("error")).take(4).collect::<Vec<_>>().join(" | ").chars().take(600).collect::<String>()))
        };
    }
    if out.status.success() {
        // demonstration only (not part of the verdict): run it natively
        let run = Command::new("timeout")
            .current_dir(&dir)
            .env("CARGO_NET_OFFLINE", "true")
            .args(["120", "cargo", "run", "--offline", "--quiet", "--bin", name])
            .output();
        let native = match run {
            Ok(r) => format!(
                "exit={:?} stdout={} stderr={}",
                r.status.code(),
                String::from_utf8_lossy(&r.stdout).trim().chars().take(300).collect::<String>(),
                String::from_utf8_lossy(&r.stderr).trim().chars().take(400).collect::<String>()
            ),
            Err(e) => format!("could not run: {e}"),
        };
        return ProbeVerdict::Accepted { native };
    }
    let errors: Vec<&str> = err.lines().filter(|l| l.contains("error[")).collect();
    // the expected refusals: a Send/Sync bound (E0277), or - for a closure that mutates its captured
    // state - "this closure only implements FnMut" (E0525: concurrent calls would alias `&mut` state)
    let threadsafety = errors.iter().any(|l| {
        (l.contains("error[E0277]") && (l.contains("cannot be shared between threads safely") || l.contains("cannot be sent between threads safely")))
            || (l.contains("error[E0525]") && l.contains("only implements `FnMut`"))
    });
    let only_expected = errors.iter().all(|l| l.contains("error[E0277]") || l.contains("error[E0599]") || l.contains("error[E0525]"));
    if threadsafety && only_expected {
        ProbeVerdict::Rejected
    } else {
        ProbeVerdict::Harness(format!("probe {name} failed to compile for another reason: {}", err.lines().filter(|l| l.contains("error")).take(4).collect::<Vec<_>>().join(" | ").chars().take(600).collect::<String>()))
    }
}

pub fn cmd_run(args: &[String]) -> i32 {
    if args.len() < 2 {
        eprintln!("run <prop> <quick|thorough>");
        return EXIT_HARNESS;
    }
    let prop = args[0].clone();
    let thorough = args[1] == "thorough";
    let seed: u64 = arg(args, "--seed")
        .and_then(|s| s.parse().ok())
        .or_else(|| std::env::var("VERIF_SEED").ok().and_then(|s| s.parse().ok()))
        .unwrap_or(1);
    let t = tier_for(&prop, thorough);
    let runs: u64 = arg(args, "--runs").and_then(|s| s.parse().ok()).unwrap_or(t.runs);
    let secs: u64 = arg(args, "--secs").and_then(|s| s.parse().ok()).unwrap_or(t.secs);
    let fixed_workers: Option<u64> = arg(args, "--workers").and_then(|s| s.parse().ok());
    let adaptive = fixed_workers.is_none();
    let workers: u64 = fixed_workers.unwrap_or_else(|| (allowed_cpus().len() as u64).clamp(1, 16));
    let evidence = arg(args, "--evidence").map(PathBuf::from).unwrap_or_else(|| verif_root().join(format!("evidence/{prop}.json")));
    let use_known = !args.iter().any(|a| a == "--no-known");
    let t0 = Instant::now();
    println!("verif-sim: property={prop} tier={} VERIF_SEED={seed} runs<={runs} secs<={secs} workers={workers}", if thorough { "thorough" } else { "quick" });

    let agg = match run_workers_x(&prop, thorough, seed, runs, secs, workers, false, 3, adaptive) {
        Ok(a) => a,
        Err(e) => {
            println!("HARNESS-ERROR {e}");
            return EXIT_HARNESS;
        }
    };
    let search_wall = t0.elapsed().as_secs_f64();
    if adaptive {
        println!("workers: {workers} started, the controller settled at {} active (measured {})", SETTLED_WORKERS.load(SeqCst), CONTROLLER_LOG.lock().unwrap());
    }
    println!(
        "explored {} runs in {:.1}s ({} distinct non-trivial), {} raw violation report(s), {} harness report(s)",
        agg.runs,
        search_wall,
        agg.keys.len(),
        agg.viols.len(),
        agg.harness.len()
    );

    // ---- violations: group by class, minimise the first of each class, verify the replay
    let known = if use_known { load_known() } else { vec![] };
    let mut by_class: BTreeMap<String, Vec<&Value>> = BTreeMap::new();
    for v in &agg.viols {
        let c = v["violations"][0][0].as_str().unwrap_or("?").to_string();
        by_class.entry(c).or_default().push(v);
    }
    let mut new_violations: Vec<Value> = Vec::new();
    let mut known_hits: BTreeMap<String, (Known, u64)> = BTreeMap::new();
    let mut notes: Vec<String> = Vec::new();
    // open findings carry their minimal replay: run it first (the random workload leaves that exact pattern out)
    for k in known.iter().filter(|k| k.status == "open" && k.property == prop) {
        let Some(rp) = &k.replay else { continue };
        let path = verif_root().join(rp);
        let desc = std::fs::read_to_string(&path).ok().and_then(|t| serde_json::from_str::<Value>(&t).ok()).map(|v| v["desc"].clone());
        let Some(desc) = desc else {
            notes.push(format!("open finding {}: replay file {} is missing or unreadable", k.id, path.display()));
            continue;
        };
        match exec_descs(&[desc], 1, false) {
            Ok(o) => match first_violation(&o[0]) {
                Some((c, d)) if matches_known(std::slice::from_ref(k), &prop, &c, &d).is_some() => {
                    known_hits.entry(k.id.clone()).or_insert((k.clone(), 0)).1 += 1;
                }
                Some((c, d)) => {
                    // the recorded input now fails differently: that is a new violation, handled like any other
                    notes.push(format!("open finding {}: its replay now fails as {c}: {d}", k.id));
                }
                None => notes.push(format!("open finding {}: its recorded replay no longer fails on this tree", k.id)),
            },
            Err(e) => notes.push(format!("open finding {}: replay could not be executed: {e}", k.id)),
        }
    }
    let mut harness_errors: Vec<String> = agg.harness.iter().map(|h| h["detail"].as_str().unwrap_or("?").to_string()).collect();
    let replay_dir = verif_root().join("replays");
    let _ = std::fs::create_dir_all(&replay_dir);
    let minimise_started = Instant::now();
    let mut classes_minimised = 0;
    for (class, vs) in &by_class {
        // known findings first: every report of this class that matches an open finding is attributed to it
        let mut unmatched: Vec<&Value> = Vec::new();
        for v in vs {
            let detail = v["violations"][0][1].as_str().unwrap_or("");
            match matches_known(&known, &prop, class, detail) {
                Some(k) => {
                    known_hits.entry(k.id.clone()).or_insert((k.clone(), 0)).1 += 1;
                }
                None => unmatched.push(v),
            }
        }
        let Some(first) = unmatched.first() else { continue };
        let desc = first["desc"].clone();
        let detail0 = first["violations"][0][1].as_str().unwrap_or("").to_string();
        // 1. does it reproduce alone, in a fresh process?
        let repro = exec_descs(&[desc.clone()], 1, false);
        let reproduced = match &repro {
            Ok(o) => first_violation(&o[0]).map(|(c, _)| c == *class).unwrap_or(false),
            Err(_) => false,
        };
        if !reproduced {
            harness_errors.push(format!(
                "violation class {class} of run idx {} did not reproduce from its explicit description in a fresh process ({detail0})",
                first["idx"]
            ));
            continue;
        }
        // 2. minimise, 3. verify the minimised file once more in a fresh process
        // a badly broken tree fails in many ways at once: minimise the first few classes only
        classes_minimised += 1;
        let budget = if classes_minimised > 4 || minimise_started.elapsed() > Duration::from_secs(150) { 0 } else if thorough { 120 } else { 45 };
        let (min, tried) = if budget == 0 { (desc.clone(), 0) } else { minimise(&desc, class, Duration::from_secs(budget)) };
        let fin = exec_descs(&[min.clone()], 1, true);
        let (final_desc, final_out) = match &fin {
            Ok(o) if first_violation(&o[0]).map(|(c, _)| c == *class).unwrap_or(false) => (min, o[0].clone()),
            _ => (desc.clone(), repro.unwrap()[0].clone()),
        };
        let (_, fdetail) = first_violation(&final_out).unwrap_or((class.clone(), detail0.clone()));
        // a minimised violation may turn out to be a known one
        if let Some(k) = matches_known(&known, &prop, class, &fdetail) {
            known_hits.entry(k.id.clone()).or_insert((k.clone(), 0)).1 += unmatched.len() as u64;
            continue;
        }
        let path = replay_dir.join(format!("{prop}-{class}-seed{seed}-idx{}.json", first["idx"]));
        let file = json!({
            "property": prop,
            "verif_seed": seed,
            "idx": first["idx"],
            "class": class,
            "detail": fdetail,
            "replay_form": "single-run",
            "minimisation_candidates_tried": tried,
            "reports_of_this_class": unmatched.len(),
            "desc": final_desc,
            "trace": final_out["result"]["trace"],
            "all_violations": final_out["result"]["violations"],
            "original_desc": desc,
        });
        let _ = std::fs::write(&path, serde_json::to_string_pretty(&file).unwrap());
        new_violations.push(json!({"class": class, "detail": fdetail, "replay": path.to_string_lossy(), "count": unmatched.len()}));
    }

    // ---- C12 Part C: safe-Rust probe programs compiled against /repo's working tree
    let mut probe_report: Vec<Value> = Vec::new();
    if prop == "C12" && !args.iter().any(|a| a == "--no-probes") {
        let results: Vec<(String, ProbeVerdict)> = std::thread::scope(|sc| {
            // the first probe builds roto; the rest reuse it
            let first = (PROBES[0].to_string(), run_probe(PROBES[0]));
            let hs: Vec<_> = PROBES[1..].iter().map(|n| sc.spawn(move || (n.to_string(), run_probe(n)))).collect();
            let mut v = vec![first];
            for h in hs {
                if let Ok(x) = h.join() {
                    v.push(x);
                }
            }
            v
        });
        for (name, v) in results {
            match v {
                ProbeVerdict::Rejected if name.starts_with("ok_") => probe_report.push(json!({"probe": name, "rustc": "accepted, as required"})),
                ProbeVerdict::Rejected => probe_report.push(json!({"probe": name, "rustc": "rejected (Send/Sync bound E0277, or Fn-not-FnMut E0525)"})),
                ProbeVerdict::Accepted { native } => {
                    probe_report.push(json!({"probe": name, "rustc": "ACCEPTED", "native_run": native}));
                    let detail = if name.starts_with("ok_") {
                        format!("probe program probes/src/bin/{name}.rs must compile but does not: {native}")
                    } else {
                        format!("safe-Rust probe program probes/src/bin/{name}.rs is accepted by rustc: it shares non-thread-safe state between threads through roto's API without synchronisation; native run: {native}")
                    };
                    if let Some(k) = matches_known(&known, &prop, "non-thread-safe-state-shared", &detail) {
                        known_hits.entry(k.id.clone()).or_insert((k.clone(), 0)).1 += 1;
                    } else {
                        let path = replay_dir.join(format!("C12-probe-{name}.json"));
                        let _ = std::fs::write(&path, serde_json::to_string_pretty(&json!({"property": "C12", "class": "non-thread-safe-state-shared", "probe": name, "detail": detail})).unwrap());
                        new_violations.push(json!({"class": "non-thread-safe-state-shared", "detail": detail, "replay": path.to_string_lossy(), "count": 1}));
                    }
                }
                ProbeVerdict::Harness(e) => {
                    probe_report.push(json!({"probe": name, "rustc": "harness error", "detail": e}));
                    harness_errors.push(e);
                }
            }
        }
    }

    // ---- evidence
    let wall = t0.elapsed().as_secs_f64();
    let mut fault_kinds = serde_json::Map::new();
    let c = &agg.counters;
    let g = |k: &str| c.get(k).copied().unwrap_or(0);
    fault_kinds.insert("preemption_at_sync_or_hook_point".into(), json!({"configured_runs": agg.runs, "fired": g("preemptions")}));
    fault_kinds.insert("preemption_right_after_lock_release".into(), json!({"fired": g("preempt_after_release")}));
    fault_kinds.insert("lock_contention_made_visible".into(), json!({"fired": g("lock_contended")}));
    fault_kinds.insert("storage_relocation_on_growth".into(), json!({"fired": g("realloc_moves")}));
    fault_kinds.insert("freed_storage_poisoned_and_quarantined".into(), json!({"fired": g("quarantined_blocks")}));
    fault_kinds.insert("injected_element_panic".into(), json!({"configured": g("fault_configured"), "fired": g("fault_fired_panic")}));
    fault_kinds.insert("instruction_level_preemption_inside_one_operation".into(), json!({"configured_runs": g("fine_window_configured"), "fired": g("fine_window_preemptions_fired"), "instructions_single_stepped": g("fine_window_instructions_stepped")}));
    if c.contains_key("anchored_window_configured") {
        fault_kinds.insert("anchored_window_behind_an_interning_point".into(), json!({"configured_runs": g("anchored_window_configured"), "armed": g("anchored_window_armed"), "fired_right_after_an_atomic_instruction": g("anchored_window_fired_after_atomic_instruction")}));
    }
    if c.contains_key("runs_discarded_window_inside_unhooked_critical_section") {
        fault_kinds.insert("runs_discarded_because_a_window_parked_a_thread_inside_an_unhooked_critical_section".into(), json!({"runs": g("runs_discarded_window_inside_unhooked_critical_section")}));
    }
    if c.contains_key("knob_page_reuse_runs") {
        fault_kinds.insert("freed_jit_blocks_handed_out_again_instead_of_quarantined".into(), json!({"configured_runs": g("knob_page_reuse_runs"), "blocks_reused": g("pages_reused")}));
    }
    if c.contains_key("fault_owner_dropped_by_unwinding") {
        fault_kinds.insert("owner_released_by_the_unwinding_of_a_panic".into(), json!({"fired": g("fault_owner_dropped_by_unwinding")}));
    }
    if c.contains_key("fault_failed_reload") {
        fault_kinds.insert("failed_reload_ill_typed_version".into(), json!({"fired": g("fault_failed_reload")}));
    }
    let probes: BTreeMap<&String, &u64> = c.iter().filter(|(k, _)| k.starts_with("probe_") || k.starts_with("site_") || k.starts_with("elem_") || k.starts_with("strategy_") || k.starts_with("op_")).collect();
    let samples: Vec<Value> = agg.samples.iter().take(3).cloned().collect();
    let rule = match prop.as_str() {
        "C16" => "each evaluation is one simulated run: a seeded workload (2-4 threads x 1-5 list operations on 1-3 shared lists, element type and Rust/script origin drawn per run) executed under one seeded schedule; non-trivial = at least one preemption of a still-runnable thread occurred; distinct = distinct hash of the full (thread, event kind, logical lock id / site) event sequence",
        "C11" => "each evaluation is one simulated run from a cold process image: a seeded lifecycle history (setup on the main thread, then 1-3 simulated threads x 2-14 operations on shared slots of runtimes, packages and handles, then a seeded teardown) under one seeded schedule; non-trivial = at least one preemption of a still-runnable thread; distinct = distinct hash of the full event sequence (interning, lock, host-call, clone/drop points)",
        "C12" => "each evaluation is one simulated run from a cold process image: either 2-4 caller threads x 1-6 calls/clones/drops on shared handles of a 12-function corpus whose literals are drawn per run, with 0-2 background compile-call-drop threads (3 of 4 runs), or 2-3 threads racing runtime construction, compilation and a get_function signature matrix on the empty type registry (1 of 4 runs); non-trivial = at least one preemption; distinct = distinct hash of the full event sequence. Plus 9 safe-Rust probe programs compiled against the working tree.",
        "C15" => "each evaluation is one sequential history of 1-60 list operations over 3 aliased handle slots, executed on one simulated thread against the heap model; non-trivial = at least 3 operations; distinct = distinct hash of (element type, operation sequence with arguments and origins)",
        _ => "each evaluation is one simulated run",
    };
    let ev = json!({
        "property_id": prop,
        "tier": if thorough { "thorough" } else { "quick" },
        "seed": seed,
        "level": "exploration",
        "coverage": {
            "evaluations": agg.runs,
            "distinct_nontrivial": agg.keys.len(),
            "nontrivial_total": agg.nontrivial,
            "rule": rule,
            "samples": samples,
            "simulated_runs_per_hour": (agg.runs as f64 / search_wall.max(0.001) * 3600.0) as u64,
            "seeds_per_hour": (agg.runs as f64 / search_wall.max(0.001) * 3600.0) as u64,
            "simulated_time": {"unit": "scheduler steps (logical time; roto has no clock)", "total_steps": g("steps")},
            "fault_kinds": fault_kinds,
            "probes": probes,
            "counters": c,
            "components": components(&prop),
            "workers": workers,
            "workers_active": if adaptive { json!({"settled_at": SETTLED_WORKERS.load(SeqCst), "measured_runs_per_second": CONTROLLER_LOG.lock().unwrap().clone(), "note": "process creation and page faults do not scale across processes on every VM: the number of active workers is chosen by measurement while the run proceeds; workers claim run indices from a shared counter, so the explored set is a prefix of the index space and every run is the same execution whoever executes it"}) } else { json!(workers) },
            "stopped_by_deadline": agg.deadline_hit,
            "safe_rust_probes": probe_report,
            "known_findings_seen": known_hits.iter().map(|(k, (_, n))| json!({"id": k, "reports": n})).collect::<Vec<_>>(),
            "new_violations": new_violations,
            "harness_errors": harness_errors,
        },
        "assumptions": [
            "preemption happens at intercepted points (hooked mutexes, tracked clone/drop/eq, host functions, interning, extern clone/drop/eq) and, in a fraction of the runs, at one instruction-level point (after k instructions or after the j-th atomic instruction of one operation); a race that needs two cores inside one instruction is out of reach",
            "the getrandom shim and ASLR-off personality only affect reproducibility, not behaviour",
            "a clean batch is evidence, not proof: schedules and workloads are sampled"
        ],
        "wall_s": wall,
        "violations": new_violations.len(),
    });
    if let Some(dir) = evidence.parent() {
        let _ = std::fs::create_dir_all(dir);
    }
    if let Err(e) = std::fs::write(&evidence, serde_json::to_string_pretty(&ev).unwrap()) {
        println!("HARNESS-ERROR cannot write evidence {}: {e}", evidence.display());
        return EXIT_HARNESS;
    }
    for (id, (k, n)) in &known_hits {
        println!("KNOWN-FINDING: property={} {} [{}; {} report(s) this run]", k.property, k.what, id, n);
    }
    for n in &notes {
        println!("note: {n}");
    }
    for v in &new_violations {
        println!("VIOLATION property={} replay={}", prop, v["replay"].as_str().unwrap_or(""));
        println!("  class={} ({} report(s)): {}", v["class"].as_str().unwrap_or(""), v["count"], v["detail"].as_str().unwrap_or(""));
    }
    if !new_violations.is_empty() {
        return EXIT_VIOLATION;
    }
    if !harness_errors.is_empty() {
        for h in harness_errors.iter().take(5) {
            println!("HARNESS-ERROR {h}");
        }
        return EXIT_HARNESS;
    }
    if agg.runs == 0 {
        println!("HARNESS-ERROR no runs were executed");
        return EXIT_HARNESS;
    }
    println!("OK property={prop}: held on all {} runs explored ({:.1}s)", agg.runs, wall);
    EXIT_OK
}

pub fn cmd_replay(args: &[String]) -> i32 {
    let Some(path) = args.first() else {
        eprintln!("replay <file>");
        return EXIT_HARNESS;
    };
    let txt = match std::fs::read_to_string(Path::new(path)) {
        Ok(t) => t,
        Err(e) => {
            println!("HARNESS-ERROR cannot read {path}: {e}");
            return EXIT_HARNESS;
        }
    };
    let v: Value = match serde_json::from_str(&txt) {
        Ok(v) => v,
        Err(e) => {
            println!("HARNESS-ERROR cannot parse {path}: {e}");
            return EXIT_HARNESS;
        }
    };
    if let Some(probe) = v["probe"].as_str() {
        return match run_probe(probe) {
            ProbeVerdict::Accepted { native } => {
                println!("replay: probe {probe} is accepted by rustc; native run: {native}");
                println!("VIOLATION property=C12 replay={path}");
                EXIT_VIOLATION
            }
            ProbeVerdict::Rejected => {
                println!("replay: probe {probe} is rejected by rustc (route closed)");
                EXIT_OK
            }
            ProbeVerdict::Harness(e) => {
                println!("HARNESS-ERROR {e}");
                EXIT_HARNESS
            }
        };
    }
    let desc = if v.get("desc").is_some() { v["desc"].clone() } else { v.clone() };
    let want = v["class"].as_str().map(String::from);
    let out = match exec_descs(&[desc.clone()], 1, true) {
        Ok(o) => o,
        Err(e) => {
            println!("HARNESS-ERROR {e}");
            return EXIT_HARNESS;
        }
    };
    let o = &out[0];
    if let Some(h) = o["harness_error"].as_str() {
        println!("HARNESS-ERROR {h}");
        return EXIT_HARNESS;
    }
    if args.iter().any(|a| a == "--trace") {
        if let Some(t) = o["result"]["trace"].as_array() {
            for l in t {
                println!("  {}", l.as_str().unwrap_or(""));
            }
        }
        println!("{}", serde_json::to_string_pretty(&o["result"]["extra"]).unwrap_or_default());
    }
    match first_violation(o) {
        Some((c, d)) => {
            let same = want.as_deref().map(|w| w == c).unwrap_or(true);
            println!("replay: class={c} detail={d}");
            if same {
                println!("VIOLATION property={} replay={}", desc["property"].as_str().unwrap_or("?"), path);
                EXIT_VIOLATION
            } else {
                println!("replay produced a different violation class than recorded ({})", want.unwrap_or_default());
                EXIT_VIOLATION
            }
        }
        None => {
            println!("replay: no violation (steps={})", o["result"]["steps"]);
            EXIT_OK
        }
    }
}

/// `selfcheck determinism <prop> [--runs N]`: every run executed in two
/// different worker processes at two different worker counts must give
/// byte-identical results (event-log hash, observations, counters).
pub fn cmd_selfcheck(args: &[String]) -> i32 {
    if args.first().map(|s| s.as_str()) != Some("determinism") || args.len() < 2 {
        eprintln!("selfcheck determinism <prop> [--runs N]");
        return EXIT_HARNESS;
    }
    let prop = args[1].clone();
    let runs: u64 = arg(args, "--runs").and_then(|s| s.parse().ok()).unwrap_or(4000);
    let seed: u64 = arg(args, "--seed").and_then(|s| s.parse().ok()).unwrap_or(1);
    let thorough = args.iter().any(|a| a == "--thorough");
    let mut maps = Vec::new();
    for w in [16u64, 5, 1] {
        let n = if w == 1 { runs.min(600) } else { runs };
        match run_workers(&prop, thorough, seed, n, 3600, w, true, 0) {
            Ok(a) => {
                println!("workers={w}: {} runs, {} distinct event-log hashes", a.run_hashes.len(), a.run_hashes.values().map(|x| x.1).collect::<HashSet<_>>().len());
                maps.push((w, a.run_hashes));
            }
            Err(e) => {
                println!("HARNESS-ERROR {e}");
                return EXIT_HARNESS;
            }
        }
    }
    let mut bad = 0;
    let base = &maps[0].1;
    for (w, m) in &maps[1..] {
        for (idx, h) in m {
            if base.get(idx) != Some(h) {
                bad += 1;
                if bad <= 10 {
                    println!("MISMATCH idx={idx}: workers=16 {:?} vs workers={w} {:?}", base.get(idx), h);
                }
            }
        }
    }
    if bad == 0 {
        println!("determinism: OK ({} runs compared across 3 process layouts)", base.len());
        EXIT_OK
    } else {
        println!("determinism: {bad} mismatching runs");
        EXIT_HARNESS
    }
}

pub fn cmd_selftest() -> i32 {
    // linearizability checker sanity (also covered by `cargo test`)
    println!("selftest: nothing to do in this build");
    EXIT_OK
}

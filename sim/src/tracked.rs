//! Drop-tracked harness element types. Their `Clone`/`Drop`/`PartialEq` are
//! scheduling points (they run *inside* list critical sections) and keep an
//! exact live-instance table.

use crate::{alloc, sched, viol};
use std::collections::{BTreeMap, HashMap};
use std::sync::Mutex;
use std::sync::atomic::{AtomicI64, AtomicU64, Ordering::SeqCst};

#[derive(Default)]
struct Table {
    live: HashMap<u64, u64>, // instance id -> payload
    next: u64,
    clones: u64,
    drops: u64,
    /// per simulated thread: (payload, +1 clone/new | -1 drop)
    log: Vec<(usize, u64, i8)>,
    log_on: bool,
}

static T: Mutex<Option<Table>> = Mutex::new(None);
static ZST_LIVE: AtomicI64 = AtomicI64::new(0);
static ZGUARD_LIVE: AtomicI64 = AtomicI64::new(0);
static ZST_CLONES: AtomicU64 = AtomicU64::new(0);
static ZST_DROPS: AtomicU64 = AtomicU64::new(0);
static PANIC_CLONE_AT: AtomicI64 = AtomicI64::new(-1);
static PANIC_EQ_AT: AtomicI64 = AtomicI64::new(-1);

fn with<R>(f: impl FnOnce(&mut Table) -> R) -> R {
    let _mg = alloc::ModeGuard::new(alloc::MODE_PLAIN);
    let mut g = T.lock().unwrap();
    f(g.get_or_insert_with(Table::default))
}

pub fn reset() {
    with(|t| *t = Table::default());
    ZST_LIVE.store(0, SeqCst);
    ZGUARD_LIVE.store(0, SeqCst);
    ZST_CLONES.store(0, SeqCst);
    ZST_DROPS.store(0, SeqCst);
    PANIC_CLONE_AT.store(-1, SeqCst);
    PANIC_EQ_AT.store(-1, SeqCst);
}

pub fn set_log(on: bool) {
    with(|t| {
        t.log_on = on;
        t.log.clear()
    });
}
pub fn take_log() -> Vec<(usize, u64, i8)> {
    with(|t| std::mem::take(&mut t.log))
}
/// drain the log entries made by simulated thread `tid`
pub fn take_log_for(tid: usize) -> Vec<(usize, u64, i8)> {
    with(|t| {
        let (mine, rest): (Vec<_>, Vec<_>) = std::mem::take(&mut t.log).into_iter().partition(|e| e.0 == tid);
        t.log = rest;
        mine
    })
}

/// fault injection: the n-th (0-based) clone / eq from now panics (Rust-API paths only)
pub fn arm_clone_panic(n: i64) {
    PANIC_CLONE_AT.store(n, SeqCst);
}
pub fn arm_eq_panic(n: i64) {
    PANIC_EQ_AT.store(n, SeqCst);
}
pub fn disarm() -> (bool, bool) {
    let a = PANIC_CLONE_AT.swap(-1, SeqCst);
    let b = PANIC_EQ_AT.swap(-1, SeqCst);
    (a == -2, b == -2)
}
fn maybe_panic(ctr: &AtomicI64, what: &str) {
    let v = ctr.load(SeqCst);
    if v >= 0 {
        if v == 0 {
            ctr.store(-2, SeqCst); // fired
            panic!("injected {what} panic");
        }
        ctr.store(v - 1, SeqCst);
    }
}

/// number of live instances
pub fn live_count() -> usize {
    with(|t| t.live.len())
}
/// payload -> number of live instances
pub fn live_by_payload() -> BTreeMap<u64, usize> {
    with(|t| {
        let mut m = BTreeMap::new();
        for p in t.live.values() {
            *m.entry(*p).or_insert(0) += 1;
        }
        m
    })
}
pub fn counts() -> (u64, u64) {
    with(|t| (t.clones, t.drops))
}
pub fn zst_live() -> i64 {
    ZST_LIVE.load(SeqCst)
}
pub fn zst_counts() -> (u64, u64) {
    (ZST_CLONES.load(SeqCst), ZST_DROPS.load(SeqCst))
}

fn register(payload: u64, is_clone: bool) -> u64 {
    let tid = sched::tid();
    with(|t| {
        t.next += 1;
        let id = t.next;
        t.live.insert(id, payload);
        if is_clone {
            t.clones += 1;
        }
        if t.log_on {
            t.log.push((tid, payload, 1));
        }
        id
    })
}

/// A 24-byte drop-tracked value without any pointer inside: cloning a
/// corrupted one is detected in harness code without dereferencing garbage.
#[repr(C)]
pub struct T24 {
    id: u64,
    payload: u64,
    check: u64,
}

const SALT: u64 = 0x5bd1_e995_9e37_79b9;

impl T24 {
    pub fn new(payload: u64) -> Self {
        let id = register(payload, false);
        T24 {
            id,
            payload,
            check: !id ^ payload.wrapping_mul(SALT),
        }
    }
    fn valid(&self) -> bool {
        self.check == !self.id ^ self.payload.wrapping_mul(SALT)
    }
    pub fn payload(&self) -> u64 {
        self.payload
    }
    /// payload, or an explanation of what is wrong with this object
    pub fn checked_payload(&self) -> Result<u64, String> {
        if !self.valid() {
            return Err(describe_garbage(self.id, self.payload, self.check));
        }
        let live = with(|t| t.live.get(&self.id).copied());
        match live {
            Some(p) if p == self.payload => Ok(p),
            Some(p) => Err(format!("instance {} has payload {} but table says {}", self.id, self.payload, p)),
            None => Err(format!("instance {} (payload {}) is not live (already dropped)", self.id, self.payload)),
        }
    }
}

fn describe_garbage(id: u64, payload: u64, check: u64) -> String {
    let kind = if alloc::is_poison_u64(id) || alloc::is_poison_u64(payload) {
        if id == 0xDDDD_DDDD_DDDD_DDDD {
            "freed-memory poison"
        } else {
            "never-written-memory pattern"
        }
    } else {
        "garbage"
    };
    format!("object bytes are {kind}: id={id:#x} payload={payload:#x} check={check:#x}")
}

impl Clone for T24 {
    fn clone(&self) -> Self {
        sched::point("t24.clone");
        maybe_panic(&PANIC_CLONE_AT, "clone");
        if !self.valid() {
            viol::record(
                "stale-read",
                format!("clone of a tracked element read through a stale address: {}", describe_garbage(self.id, self.payload, self.check)),
            );
            return T24::new(u64::MAX);
        }
        let live = with(|t| t.live.get(&self.id).copied());
        if live != Some(self.payload) {
            viol::record(
                "use-after-drop",
                format!("clone of tracked instance {} (payload {}) which is not live", self.id, self.payload),
            );
        }
        let id = register(self.payload, true);
        T24 {
            id,
            payload: self.payload,
            check: !id ^ self.payload.wrapping_mul(SALT),
        }
    }
}

impl Drop for T24 {
    fn drop(&mut self) {
        sched::point("t24.drop");
        if !self.valid() {
            viol::record(
                "stale-drop",
                format!("drop of a tracked element through a stale address: {}", describe_garbage(self.id, self.payload, self.check)),
            );
            return;
        }
        let tid = sched::tid();
        let (id, payload) = (self.id, self.payload);
        let ok = with(|t| {
            t.drops += 1;
            if t.log_on {
                t.log.push((tid, payload, -1));
            }
            t.live.remove(&id).is_some()
        });
        if !ok {
            viol::record(
                "double-drop",
                format!("tracked instance {id} (payload {payload}) dropped twice"),
            );
        }
        // make a later use of this storage recognisable
        self.check = 0;
    }
}

impl PartialEq for T24 {
    fn eq(&self, other: &Self) -> bool {
        sched::point("t24.eq");
        maybe_panic(&PANIC_EQ_AT, "eq");
        for x in [self, other] {
            if !x.valid() {
                viol::record(
                    "stale-read",
                    format!("comparison of a tracked element read through a stale address: {}", describe_garbage(x.id, x.payload, x.check)),
                );
                return false;
            }
        }
        self.payload == other.payload
    }
}

impl std::fmt::Debug for T24 {
    fn fmt(&self, f: &mut std::fmt::Formatter<'_>) -> std::fmt::Result {
        write!(f, "T24({})", self.payload)
    }
}

/// A zero-sized drop-tracked value.
pub struct Zst;

impl Zst {
    pub fn new() -> Self {
        ZST_LIVE.fetch_add(1, SeqCst);
        Zst
    }
}
impl Clone for Zst {
    fn clone(&self) -> Self {
        sched::point("zst.clone");
        ZST_CLONES.fetch_add(1, SeqCst);
        ZST_LIVE.fetch_add(1, SeqCst);
        Zst
    }
}
impl Drop for Zst {
    fn drop(&mut self) {
        sched::point("zst.drop");
        ZST_DROPS.fetch_add(1, SeqCst);
        if ZST_LIVE.fetch_sub(1, SeqCst) <= 0 {
            viol::record("double-drop", "zero-sized tracked element dropped more often than created");
        }
    }
}
impl PartialEq for Zst {
    fn eq(&self, _: &Self) -> bool {
        sched::point("zst.eq");
        true
    }
}
impl std::fmt::Debug for Zst {
    fn fmt(&self, f: &mut std::fmt::Formatter<'_>) -> std::fmt::Result {
        write!(f, "Zst")
    }
}

/// A zero-sized guard with a destructor and no `Clone`: state captured by a registered closure
/// that occupies no memory (a permit, a registration, a span guard).
pub struct ZGuard;
pub fn zguard_live() -> i64 {
    ZGUARD_LIVE.load(SeqCst)
}
impl ZGuard {
    pub fn new() -> Self {
        ZGUARD_LIVE.fetch_add(1, SeqCst);
        ZGuard
    }
}
impl Drop for ZGuard {
    fn drop(&mut self) {
        sched::point("zguard.drop");
        if ZGUARD_LIVE.fetch_sub(1, SeqCst) <= 0 {
            viol::record("double-drop", "zero-sized state captured by a registered closure dropped more often than created");
        }
    }
}

/// A 1104-byte drop-tracked value (element sizes above 1024 bytes take their own
/// branch of the list's growth policy). The padding repeats a word derived from the
/// payload, so a torn or partial copy is recognisable.
#[derive(Clone, PartialEq, Debug)]
pub struct Big {
    pub inner: T24,
    pad: [u64; 135],
}

impl Big {
    pub fn new(payload: u64) -> Self {
        Big { inner: T24::new(payload), pad: [payload.wrapping_mul(0x9E37_79B9_7F4A_7C15) | 1; 135] }
    }
    pub fn checked_payload(&self) -> Result<u64, String> {
        let p = self.inner.checked_payload()?;
        let want = p.wrapping_mul(0x9E37_79B9_7F4A_7C15) | 1;
        match self.pad.iter().position(|&w| w != want) {
            None => Ok(p),
            Some(i) => Err(format!("large element with payload {p}: padding word {i} is {:#x}, expected {want:#x} (torn or partial copy)", self.pad[i])),
        }
    }
}

//! Reference heap model for lists (DESIGN Appendix A.1) and the
//! linearizability checker for recorded concurrent histories.

use serde::{Deserialize, Serialize};
use std::collections::HashSet;

#[derive(Clone, Debug, PartialEq, Eq, Hash, Serialize, Deserialize)]
pub enum MVal {
    /// u8 / u64 element
    Int(u64),
    /// String element
    Str(String),
    /// tracked 24-byte element with this payload
    Obj(u64),
    /// zero-sized tracked element
    Unit,
    /// nested list: alias of list id
    Ref(usize),
    /// f64 element (bit pattern); equality is IEEE equality
    F(u64),
    /// `u64?` element
    OptInt(Option<u64>),
    /// `String?` element
    OptStr(Option<String>),
}

pub type ListId = usize;

#[derive(Clone, Debug, Default, PartialEq, Eq, Hash)]
pub struct Heap {
    pub lists: Vec<Vec<MVal>>,
}

impl Heap {
    pub fn new_list(&mut self, vals: Vec<MVal>) -> ListId {
        self.lists.push(vals);
        self.lists.len() - 1
    }
    pub fn val_eq(&self, a: &MVal, b: &MVal) -> bool {
        match (a, b) {
            (MVal::Ref(x), MVal::Ref(y)) => self.list_eq(*x, *y),
            (MVal::F(x), MVal::F(y)) => f64::from_bits(*x) == f64::from_bits(*y),
            _ => a == b,
        }
    }
    pub fn list_eq(&self, a: ListId, b: ListId) -> bool {
        if a == b {
            return true;
        }
        let (x, y) = (&self.lists[a], &self.lists[b]);
        x.len() == y.len() && x.iter().zip(y.iter()).all(|(p, q)| self.val_eq(p, q))
    }
    pub fn index_of(&self, l: ListId, v: &MVal) -> Option<usize> {
        self.lists[l].iter().position(|e| self.val_eq(e, v))
    }
}

#[derive(Clone, Debug, PartialEq, Eq, Serialize, Deserialize)]
pub enum Origin {
    Rust,
    Script,
}

/// An operation on lists. `h`, `a`, `b`, `src`, `dst` are *slot* numbers of the
/// issuing thread; a slot holds a handle (or nothing).
#[derive(Clone, Debug, PartialEq, Eq, Serialize, Deserialize)]
pub enum Op {
    New { dst: usize },
    FromVec { dst: usize, vals: Vec<MVal> },
    /// like `FromVec`, but the list is created and filled by script calls (`List.new()`, `push`):
    /// a script-created list carries the script's own clone/drop/eq functions
    FromVecScript { dst: usize, vals: Vec<MVal> },
    /// script literal `[a, b, c]`
    Lit3 { dst: usize, vals: Vec<MVal> },
    /// script `if c { [a, b] } else { [b, a] }` (shape 0) or `if c { let t = [a, b]; return t; } [b, a]`
    /// (shape 1): two creation sites for one element type, only one of them executed
    BranchLit { dst: usize, c: bool, vals: Vec<MVal>, shape: u8 },
    /// script `[a, b].get(i)`: `get` on a temporary list that nothing else holds
    TmpGet { vals: Vec<MVal>, i: u64 },
    /// Rust: start iterating (`into_iter`), take `k` items, push `v` through the handle, collect the rest
    IterWithPush { h: usize, k: u64, v: MVal },
    /// script `get` with the handle of slot `h` *moved* into the call (the slot is empty afterwards)
    GetMove { h: usize, i: u64 },
    /// Rust: take the handle out of slot `h` and consume it with `into_iter()`; after `k` items
    /// drop the handle in slot `alias` (often the only other handle of the same list)
    IterConsume { h: usize, alias: usize, k: u64, #[serde(default)] partial: bool },
    /// script `for x in l { l = []; n = n + 1 }`: the loop must keep iterating the list it started on
    ForRebind { h: usize },
    /// script `let r = a; r += b; r`: `+=` must build a new list, `a` stays as it was
    PlusAssign { a: usize, b: usize, dst: usize },
    /// script literal `[a, b, c, a, b, c, a, b, c]` (crosses two growth boundaries)
    Lit9 { dst: usize, vals: Vec<MVal> },
    CloneH { src: usize, dst: usize },
    DropH { h: usize },
    Push { h: usize, v: MVal },
    Get { h: usize, i: u64 },
    Len { h: usize },
    IsEmpty { h: usize },
    Cap { h: usize },
    Swap { h: usize, i: u64, j: u64 },
    Contains { h: usize, v: MVal },
    Index { h: usize, v: MVal },
    /// `dst: None` = observe the result's contents and drop it
    Concat { a: usize, b: usize, dst: Option<usize>, plus: bool },
    Eq { a: usize, b: usize, ne: bool },
    ToVec { h: usize },
    Iter { h: usize },
    Debug { h: usize },
    Join { h: usize, sep: String },
    /// script `for x in l { n = n + 1 }`
    ForCount { h: usize },
    /// script `for x in l { s = s + x }` (integer lists)
    ForSum { h: usize },
    /// script `for x in l { if c < n { l.push(x) } c = c + 1 }`
    ForPush { h: usize, n: u64 },
    /// script `for x in l { if x == v { return i } i = i + 1 } i` (leaves the loop early)
    ForFind { h: usize, v: MVal },
    /// script `Some([a, a, pick(c, a)?])`: a list literal one of whose element expressions leaves
    /// the function early (`?` on `None` when `some` is false) after two elements were added
    LitTry { dst: usize, v: MVal, some: bool },
    /// five pushes in a row, issued as one operation (two growth boundaries of a short list fall
    /// inside one window of another thread's operation); each push is atomic on its own
    PushMany { h: usize, vals: Vec<MVal> },
    /// `get(i)`, then `index` with the element that came back (for handle-like element types -
    /// strings, nested lists - the needle *is* one of the elements, not a fresh equal value)
    IndexGot { h: usize, i: u64 },
    /// script: `while i < n { let t = [A, B]; t.push(C); acc = acc + t.len(); for y in t { l.push(y); } i = i + 1; }`
    /// followed by `for z in [A, B] { let u = [C]; u.push(z); acc = acc + u.len(); }` - list literals
    /// whose elements are all literals, evaluated repeatedly inside loops and mutated there
    LoopLit { h: usize, n: u64, lits: Vec<MVal> },
    /// nested element type only: push `v` to inner list `inner` through its own handle
    /// (every alias stored in an outer list must observe it)
    InnerPush { inner: usize, v: u64 },
}

#[derive(Clone, Debug, PartialEq, Eq, Serialize, Deserialize)]
pub enum Obs {
    Unit,
    Bool(bool),
    Num(u64),
    OptNum(Option<u64>),
    OptVal(Option<MVal>),
    Vals(Vec<MVal>),
    Text(String),
    /// the operation was skipped (slot empty etc.)
    Skipped,
    /// the operation panicked (only under fault injection)
    Panicked,
}

/// Slot table + heap: the sequential reference model.
#[derive(Clone, Debug, Default)]
pub struct SeqModel {
    pub heap: Heap,
    pub slots: Vec<Option<ListId>>,
}

fn dbg_val(heap: &Heap, v: &MVal, out: &mut String) {
    match v {
        MVal::Int(x) => out.push_str(&x.to_string()),
        MVal::Str(s) => out.push_str(&format!("{s:?}")),
        MVal::Obj(p) => out.push_str(&format!("T24({p})")),
        MVal::Unit => out.push_str("Zst"),
        MVal::Ref(l) => dbg_list(heap, *l, out),
        MVal::F(b) => out.push_str(&format!("{:?}", f64::from_bits(*b))),
        MVal::OptInt(o) => out.push_str(&format!("{o:?}")),
        MVal::OptStr(o) => out.push_str(&format!("{o:?}")),
    }
}
pub fn dbg_list(heap: &Heap, l: ListId, out: &mut String) {
    out.push_str("List([");
    for (k, v) in heap.lists[l].iter().enumerate() {
        if k > 0 {
            out.push_str(", ");
        }
        dbg_val(heap, v, out);
    }
    out.push_str("])");
}

impl SeqModel {
    pub fn new(nslots: usize) -> Self {
        SeqModel {
            heap: Heap::default(),
            slots: vec![None; nslots],
        }
    }
    pub fn lid(&self, h: usize) -> Option<ListId> {
        self.slots.get(h).copied().flatten()
    }
    /// Apply `op`; returns what the operation must observe. `Cap` returns
    /// `Num(len)` = the lower bound (the growth policy is not part of the oracle).
    pub fn apply(&mut self, op: &Op) -> Obs {
        match op {
            Op::New { dst } => {
                let id = self.heap.new_list(vec![]);
                self.slots[*dst] = Some(id);
                Obs::Unit
            }
            Op::FromVec { dst, vals } | Op::FromVecScript { dst, vals } | Op::Lit3 { dst, vals } => {
                let id = self.heap.new_list(vals.clone());
                self.slots[*dst] = Some(id);
                Obs::Unit
            }
            Op::GetMove { h, i } => match self.lid(*h) {
                Some(id) => {
                    self.slots[*h] = None;
                    Obs::OptVal(self.heap.lists[id].get(*i as usize).cloned())
                }
                None => Obs::Skipped,
            },
            Op::ForRebind { h } => match self.lid(*h) {
                Some(id) => Obs::Num(self.heap.lists[id].len() as u64),
                None => Obs::Skipped,
            },
            Op::PlusAssign { a, b, dst } => match (self.lid(*a), self.lid(*b)) {
                (Some(x), Some(y)) => {
                    let mut v = self.heap.lists[x].clone();
                    v.extend(self.heap.lists[y].iter().cloned());
                    let id = self.heap.new_list(v);
                    self.slots[*dst] = Some(id);
                    Obs::Unit
                }
                _ => Obs::Skipped,
            },
            Op::IterConsume { h, alias, k, partial } => match self.lid(*h) {
                Some(id) => {
                    let mut v = self.heap.lists[id].clone();
                    if *partial {
                        v.truncate(*k as usize);
                    }
                    self.slots[*h] = None;
                    if *alias < self.slots.len() {
                        self.slots[*alias] = None;
                    }
                    Obs::Vals(v)
                }
                None => Obs::Skipped,
            },
            Op::TmpGet { vals, i } => Obs::OptVal(vals.get(*i as usize).cloned()),
            Op::IterWithPush { h, k, v } => match self.lid(*h) {
                Some(id) => {
                    let l = &mut self.heap.lists[id];
                    let k = (*k as usize).min(l.len());
                    let mut out: Vec<MVal> = l[..k].to_vec();
                    l.push(v.clone());
                    out.extend(l[k..].iter().cloned());
                    Obs::Vals(out)
                }
                None => Obs::Skipped,
            },
            Op::BranchLit { dst, c, vals, .. } => {
                let v = if *c { vec![vals[0].clone(), vals[1].clone()] } else { vec![vals[1].clone(), vals[0].clone()] };
                let id = self.heap.new_list(v);
                self.slots[*dst] = Some(id);
                Obs::Unit
            }
            Op::Lit9 { dst, vals } => {
                let mut v = Vec::new();
                for _ in 0..3 {
                    v.extend(vals.iter().cloned());
                }
                let id = self.heap.new_list(v);
                self.slots[*dst] = Some(id);
                Obs::Unit
            }
            Op::CloneH { src, dst } => match self.lid(*src) {
                Some(id) => {
                    self.slots[*dst] = Some(id);
                    Obs::Unit
                }
                None => Obs::Skipped,
            },
            Op::DropH { h } => {
                self.slots[*h] = None;
                Obs::Unit
            }
            Op::Push { h, v } => match self.lid(*h) {
                Some(id) => {
                    self.heap.lists[id].push(v.clone());
                    Obs::Unit
                }
                None => Obs::Skipped,
            },
            Op::Get { h, i } => match self.lid(*h) {
                Some(id) => Obs::OptVal(self.heap.lists[id].get(*i as usize).cloned()),
                None => Obs::Skipped,
            },
            Op::Len { h } => match self.lid(*h) {
                Some(id) => Obs::Num(self.heap.lists[id].len() as u64),
                None => Obs::Skipped,
            },
            Op::Cap { h } => match self.lid(*h) {
                Some(id) => Obs::Num(self.heap.lists[id].len() as u64),
                None => Obs::Skipped,
            },
            Op::IsEmpty { h } => match self.lid(*h) {
                Some(id) => Obs::Bool(self.heap.lists[id].is_empty()),
                None => Obs::Skipped,
            },
            Op::Swap { h, i, j } => match self.lid(*h) {
                Some(id) => {
                    let l = &mut self.heap.lists[id];
                    let (i, j) = (*i as usize, *j as usize);
                    if i < l.len() && j < l.len() {
                        l.swap(i, j);
                    }
                    Obs::Unit
                }
                None => Obs::Skipped,
            },
            Op::Contains { h, v } => match self.lid(*h) {
                Some(id) => Obs::Bool(self.heap.index_of(id, v).is_some()),
                None => Obs::Skipped,
            },
            Op::Index { h, v } => match self.lid(*h) {
                Some(id) => Obs::OptNum(self.heap.index_of(id, v).map(|x| x as u64)),
                None => Obs::Skipped,
            },
            Op::LitTry { dst, v, some } => {
                if *some {
                    let id = self.heap.new_list(vec![v.clone(), v.clone(), v.clone()]);
                    self.slots[*dst] = Some(id);
                }
                Obs::Bool(*some)
            }
            Op::PushMany { h, vals } => match self.lid(*h) {
                Some(id) => {
                    self.heap.lists[id].extend(vals.iter().cloned());
                    Obs::Unit
                }
                None => Obs::Skipped,
            },
            Op::IndexGot { h, i } => match self.lid(*h) {
                Some(id) => Obs::OptNum(self.heap.lists[id].get(*i as usize).cloned().and_then(|v| self.heap.index_of(id, &v)).map(|x| x as u64)),
                None => Obs::Skipped,
            },
            Op::LoopLit { h, n, lits } => match self.lid(*h) {
                Some(id) => {
                    for _ in 0..*n {
                        self.heap.lists[id].extend(lits.iter().cloned());
                    }
                    Obs::Num(3 * n + 4)
                }
                None => Obs::Skipped,
            },
            Op::Concat { a, b, dst, .. } => match (self.lid(*a), self.lid(*b)) {
                (Some(x), Some(y)) => {
                    let mut v = self.heap.lists[x].clone();
                    v.extend(self.heap.lists[y].iter().cloned());
                    match dst {
                        Some(d) => {
                            let id = self.heap.new_list(v);
                            self.slots[*d] = Some(id);
                            Obs::Unit
                        }
                        None => Obs::Vals(v),
                    }
                }
                _ => Obs::Skipped,
            },
            Op::Eq { a, b, ne } => match (self.lid(*a), self.lid(*b)) {
                (Some(x), Some(y)) => Obs::Bool(self.heap.list_eq(x, y) != *ne),
                _ => Obs::Skipped,
            },
            Op::ToVec { h } | Op::Iter { h } => match self.lid(*h) {
                Some(id) => Obs::Vals(self.heap.lists[id].clone()),
                None => Obs::Skipped,
            },
            Op::Debug { h } => match self.lid(*h) {
                Some(id) => {
                    let mut s = String::new();
                    dbg_list(&self.heap, id, &mut s);
                    Obs::Text(s)
                }
                None => Obs::Skipped,
            },
            Op::Join { h, sep } => match self.lid(*h) {
                Some(id) => {
                    let parts: Vec<String> = self.heap.lists[id]
                        .iter()
                        .map(|v| match v {
                            MVal::Str(s) => s.clone(),
                            _ => String::new(),
                        })
                        .collect();
                    Obs::Text(parts.join(sep))
                }
                None => Obs::Skipped,
            },
            Op::ForCount { h } => match self.lid(*h) {
                Some(id) => Obs::Num(self.heap.lists[id].len() as u64),
                None => Obs::Skipped,
            },
            Op::ForSum { h } => match self.lid(*h) {
                Some(id) => Obs::Num(self.heap.lists[id].iter().fold(0u64, |s, v| match v {
                    MVal::Int(x) => s.wrapping_add(*x),
                    _ => s,
                })),
                None => Obs::Skipped,
            },
            Op::ForFind { h, v } => match self.lid(*h) {
                Some(id) => Obs::Num(self.heap.index_of(id, v).unwrap_or(self.heap.lists[id].len()) as u64),
                None => Obs::Skipped,
            },
            Op::InnerPush { inner, v } => {
                if *inner < self.heap.lists.len() {
                    self.heap.lists[*inner].push(MVal::Int(*v));
                    Obs::Unit
                } else {
                    Obs::Skipped
                }
            }
            Op::ForPush { h, n } => match self.lid(*h) {
                Some(id) => {
                    let mut c = 0u64;
                    let mut i = 0usize;
                    while i < self.heap.lists[id].len() {
                        if c < *n {
                            let x = self.heap.lists[id][i].clone();
                            self.heap.lists[id].push(x);
                        }
                        c += 1;
                        i += 1;
                    }
                    Obs::Num(c)
                }
                None => Obs::Skipped,
            },
        }
    }
}

// ------------------------------------------------------------------ linearizability

/// One completed operation of a concurrent history, already resolved to list ids.
#[derive(Clone, Debug, Serialize, Deserialize)]
pub struct Event {
    pub tid: usize,
    pub inv: u64,
    pub ret: u64,
    pub op: LOp,
    pub obs: Obs,
}

/// Operations as the checker sees them (list ids instead of slots).
#[derive(Clone, Debug, PartialEq, Eq, Serialize, Deserialize)]
pub enum LOp {
    Push { l: ListId, v: MVal },
    Get { l: ListId, i: u64 },
    Len { l: ListId },
    IsEmpty { l: ListId },
    Cap { l: ListId },
    Swap { l: ListId, i: u64, j: u64 },
    Contains { l: ListId, v: MVal },
    Index { l: ListId, v: MVal },
    ReadAll { l: ListId },
    Concat { a: ListId, b: ListId },
    Eq { a: ListId, b: ListId, ne: bool },
    ForCount { l: ListId },
    ForSum { l: ListId },
    /// `into_iter().collect()`: a sequence of atomic `get(i)`, observed values in order
    IterVals { l: ListId },
    /// `join(sep)` of a list of strings: one atomic read
    Join { l: ListId, sep: String },
    /// a sequence of atomic pushes
    PushSeq { l: ListId, vals: Vec<MVal> },
    /// no effect on the model (handle clone/drop)
    Nop,
}

/// Progress of a multi-step operation.
#[derive(Clone, Debug, PartialEq, Eq, Hash)]
enum Sub {
    Fresh,
    /// concat: operand a has been read (its snapshot length)
    ConcatA(usize),
    /// concat: operand b has been read first (its snapshot length)
    ConcatB(usize),
    /// eq: snapshot of the first operand read (which: 0=a,1=b)
    EqHalf(u8, Vec<MVal>),
    /// for loop: next index, accumulated value
    Loop(u64, u64),
    Done,
}

fn snapshot_eq(heap: &Heap, snap: &[MVal], l: ListId) -> bool {
    let y = &heap.lists[l];
    snap.len() == y.len() && snap.iter().zip(y.iter()).all(|(p, q)| heap.val_eq(p, q))
}

/// All possible results of taking one atomic step of `ev` in `heap`.
/// Returns (new sub-state, whether the heap was mutated (already applied to `heap` clone)).
fn steps(ev: &Event, sub: &Sub, heap: &Heap) -> Vec<(Sub, Option<Heap>)> {
    let mut out = Vec::new();
    let done = |ok: bool, out: &mut Vec<(Sub, Option<Heap>)>| {
        if ok {
            out.push((Sub::Done, None))
        }
    };
    match (&ev.op, sub) {
        (LOp::Nop, Sub::Fresh) => done(true, &mut out),
        (LOp::Push { l, v }, Sub::Fresh) => {
            let mut h = heap.clone();
            h.lists[*l].push(v.clone());
            out.push((Sub::Done, Some(h)));
        }
        (LOp::PushSeq { .. }, Sub::Fresh) => {
            return steps(ev, &Sub::Loop(0, 0), heap);
        }
        (LOp::PushSeq { l, vals }, Sub::Loop(i, _)) => match vals.get(*i as usize) {
            Some(v) => {
                let mut h = heap.clone();
                h.lists[*l].push(v.clone());
                out.push((if *i as usize + 1 == vals.len() { Sub::Done } else { Sub::Loop(i + 1, 0) }, Some(h)));
            }
            None => done(true, &mut out),
        },
        (LOp::Swap { l, i, j }, Sub::Fresh) => {
            let mut h = heap.clone();
            let (i, j) = (*i as usize, *j as usize);
            if i < h.lists[*l].len() && j < h.lists[*l].len() {
                h.lists[*l].swap(i, j);
            }
            out.push((Sub::Done, Some(h)));
        }
        (LOp::Get { l, i }, Sub::Fresh) => {
            let m = heap.lists[*l].get(*i as usize);
            let ok = match (&ev.obs, m) {
                (Obs::OptVal(None), None) => true,
                (Obs::OptVal(Some(o)), Some(m)) => heap.val_eq(o, m),
                _ => false,
            };
            done(ok, &mut out)
        }
        (LOp::Len { l }, Sub::Fresh) => done(ev.obs == Obs::Num(heap.lists[*l].len() as u64), &mut out),
        (LOp::IsEmpty { l }, Sub::Fresh) => done(ev.obs == Obs::Bool(heap.lists[*l].is_empty()), &mut out),
        (LOp::Cap { l }, Sub::Fresh) => {
            let ok = matches!(ev.obs, Obs::Num(c) if c >= heap.lists[*l].len() as u64);
            done(ok, &mut out)
        }
        (LOp::Contains { l, v }, Sub::Fresh) => done(ev.obs == Obs::Bool(heap.index_of(*l, v).is_some()), &mut out),
        (LOp::Index { l, v }, Sub::Fresh) => done(ev.obs == Obs::OptNum(heap.index_of(*l, v).map(|x| x as u64)), &mut out),
        (LOp::ReadAll { l }, Sub::Fresh) => {
            let ok = matches!(&ev.obs, Obs::Vals(v) if snapshot_eq(heap, v, *l));
            done(ok, &mut out)
        }
        (LOp::Join { l, sep }, Sub::Fresh) => {
            let want = heap.lists[*l].iter().map(|v| if let MVal::Str(s) = v { s.as_str() } else { "?" }).collect::<Vec<_>>().join(sep);
            done(ev.obs == Obs::Text(want), &mut out)
        }
        (LOp::IterVals { .. }, Sub::Fresh) => {
            return steps(ev, &Sub::Loop(0, 0), heap);
        }
        (LOp::IterVals { l }, Sub::Loop(i, _)) => {
            let Obs::Vals(o) = &ev.obs else { return out };
            match heap.lists[*l].get(*i as usize) {
                Some(m) => {
                    if let Some(x) = o.get(*i as usize) {
                        if heap.val_eq(x, m) {
                            out.push((Sub::Loop(i + 1, 0), None));
                        }
                    }
                }
                None => done(o.len() as u64 == *i, &mut out),
            }
        }
        (LOp::ForCount { .. }, Sub::Fresh) | (LOp::ForSum { .. }, Sub::Fresh) => {
            return steps(ev, &Sub::Loop(0, 0), heap);
        }
        (LOp::ForCount { l }, Sub::Loop(i, acc)) => match heap.lists[*l].get(*i as usize) {
            Some(_) => out.push((Sub::Loop(i + 1, acc + 1), None)),
            None => done(ev.obs == Obs::Num(*acc), &mut out),
        },
        (LOp::ForSum { l }, Sub::Loop(i, acc)) => match heap.lists[*l].get(*i as usize) {
            Some(MVal::Int(x)) => out.push((Sub::Loop(i + 1, acc.wrapping_add(*x)), None)),
            Some(_) => out.push((Sub::Loop(i + 1, *acc), None)),
            None => done(ev.obs == Obs::Num(*acc), &mut out),
        },
        (LOp::Concat { a, b }, s) => {
            let Obs::Vals(o) = &ev.obs else { return out };
            if a == b {
                // one list read twice: two atomic reads of the same list
                match s {
                    Sub::Fresh => {
                        let x = &heap.lists[*a];
                        if o.len() >= x.len() && snapshot_prefix(heap, &o[..x.len()], x) {
                            out.push((Sub::ConcatA(x.len()), None));
                        }
                    }
                    Sub::ConcatA(n) => {
                        let x = &heap.lists[*b];
                        done(o.len() == n + x.len() && snapshot_prefix(heap, &o[*n..], x), &mut out);
                    }
                    _ => {}
                }
                return out;
            }
            match s {
                Sub::Fresh => {
                    let x = &heap.lists[*a];
                    if o.len() >= x.len() && snapshot_prefix(heap, &o[..x.len()], x) {
                        out.push((Sub::ConcatA(x.len()), None));
                    }
                    let y = &heap.lists[*b];
                    if o.len() >= y.len() && snapshot_prefix(heap, &o[o.len() - y.len()..], y) {
                        out.push((Sub::ConcatB(y.len()), None));
                    }
                }
                Sub::ConcatA(n) => {
                    let y = &heap.lists[*b];
                    done(o.len() == n + y.len() && snapshot_prefix(heap, &o[*n..], y), &mut out);
                }
                Sub::ConcatB(n) => {
                    let x = &heap.lists[*a];
                    done(o.len() == n + x.len() && snapshot_prefix(heap, &o[..x.len()], x), &mut out);
                }
                _ => {}
            }
        }
        (LOp::Eq { a, b, ne }, s) => {
            let Obs::Bool(o) = &ev.obs else { return out };
            if a == b {
                if *s == Sub::Fresh {
                    done(*o != *ne, &mut out);
                }
                return out;
            }
            match s {
                Sub::Fresh => {
                    out.push((Sub::EqHalf(0, heap.lists[*a].clone()), None));
                    out.push((Sub::EqHalf(1, heap.lists[*b].clone()), None));
                }
                Sub::EqHalf(which, snap) => {
                    let other = if *which == 0 { *b } else { *a };
                    let e = snapshot_eq(heap, snap, other);
                    done((e != *ne) == *o, &mut out);
                }
                _ => {}
            }
        }
        _ => {}
    }
    out
}

fn snapshot_prefix(heap: &Heap, obs: &[MVal], x: &[MVal]) -> bool {
    obs.len() == x.len() && obs.iter().zip(x.iter()).all(|(p, q)| heap.val_eq(p, q))
}

pub struct LinResult {
    pub ok: bool,
    pub states: u64,
    pub gave_up: bool,
    /// a witness order of (event index) atomic steps when ok
    pub witness: Vec<usize>,
}

/// Wing–Gong style search: is there an order of the atomic steps of all
/// operations that respects real-time order (a step of `d` only after every
/// operation that returned before `d` was invoked has completed) and
/// reproduces every observed result?
pub fn linearizable(initial: &Heap, events: &[Event], budget: u64) -> LinResult {
    let n = events.len();
    let mut subs: Vec<Sub> = vec![Sub::Fresh; n];
    let mut seen: HashSet<u64> = HashSet::new();
    let mut states = 0u64;
    let mut witness = Vec::new();
    // pred[d] = events that must be complete before d may take a step
    let pred: Vec<Vec<usize>> = (0..n)
        .map(|d| (0..n).filter(|&p| p != d && events[p].ret < events[d].inv).collect())
        .collect();
    // per thread program order is implied by ret < inv
    fn key(subs: &[Sub], heap: &Heap) -> u64 {
        use std::hash::{Hash, Hasher};
        let mut h = std::collections::hash_map::DefaultHasher::new();
        subs.hash(&mut h);
        heap.hash(&mut h);
        h.finish()
    }
    fn dfs(
        events: &[Event],
        pred: &[Vec<usize>],
        subs: &mut Vec<Sub>,
        heap: &Heap,
        seen: &mut HashSet<u64>,
        states: &mut u64,
        budget: u64,
        witness: &mut Vec<usize>,
    ) -> Option<bool> {
        if subs.iter().all(|s| *s == Sub::Done) {
            return Some(true);
        }
        // a state costs what hashing and copying the heap costs: with a list of a thousand elements
        // in it, two million states would take hours (and the run would be taken for one that does
        // not terminate) - the budget is spent in proportion, and a search that runs out of it
        // gives no verdict (`lin_gave_up`), never a violation
        let before = *states;
        *states += 1 + heap.lists.iter().map(|l| l.len() as u64).sum::<u64>() / 32;
        if before / 4096 != *states / 4096 {
            // (the search is bounded by its budget; the watchdog of the parent should see it move)
            crate::sched::beat();
        }
        if *states > budget {
            return None;
        }
        if !seen.insert(key(subs, heap)) {
            return Some(false);
        }
        for d in 0..events.len() {
            if subs[d] == Sub::Done {
                continue;
            }
            if pred[d].iter().any(|&p| subs[p] != Sub::Done) {
                continue;
            }
            for (ns, nh) in steps(&events[d], &subs[d], heap) {
                let old = std::mem::replace(&mut subs[d], ns);
                witness.push(d);
                let r = match &nh {
                    Some(h2) => dfs(events, pred, subs, h2, seen, states, budget, witness),
                    None => dfs(events, pred, subs, heap, seen, states, budget, witness),
                };
                match r {
                    Some(true) => return Some(true),
                    None => return None,
                    Some(false) => {}
                }
                witness.pop();
                subs[d] = old;
            }
        }
        Some(false)
    }
    let r = dfs(events, &pred, &mut subs, initial, &mut seen, &mut states, budget, &mut witness);
    LinResult {
        ok: r == Some(true),
        states,
        gave_up: r.is_none(),
        witness,
    }
}

#[cfg(test)]
mod tests {
    use super::*;
    fn ev(tid: usize, inv: u64, ret: u64, op: LOp, obs: Obs) -> Event {
        Event { tid, inv, ret, op, obs }
    }
    #[test]
    fn basic() {
        let mut h = Heap::default();
        h.new_list(vec![MVal::Int(1)]);
        // push(2) || get(1) -> Some(2) : ok
        let e = vec![
            ev(0, 1, 4, LOp::Push { l: 0, v: MVal::Int(2) }, Obs::Unit),
            ev(1, 2, 3, LOp::Get { l: 0, i: 1 }, Obs::OptVal(Some(MVal::Int(2)))),
        ];
        assert!(linearizable(&h, &e, 10000).ok);
        // get returns Some(2) strictly before push invoked : not ok
        let e = vec![
            ev(0, 5, 6, LOp::Push { l: 0, v: MVal::Int(2) }, Obs::Unit),
            ev(1, 2, 3, LOp::Get { l: 0, i: 1 }, Obs::OptVal(Some(MVal::Int(2)))),
        ];
        assert!(!linearizable(&h, &e, 10000).ok);
        // stale value
        let e = vec![ev(1, 2, 3, LOp::Get { l: 0, i: 0 }, Obs::OptVal(Some(MVal::Int(0xDDDD))))];
        assert!(!linearizable(&h, &e, 10000).ok);
    }
    #[test]
    fn concat_two_reads() {
        let mut h = Heap::default();
        h.new_list(vec![MVal::Int(1)]);
        h.new_list(vec![MVal::Int(2)]);
        // concat(a,b) observes [1,2,3] while push(b,3) concurrent: ok
        let e = vec![
            ev(0, 1, 10, LOp::Concat { a: 0, b: 1 }, Obs::Vals(vec![MVal::Int(1), MVal::Int(2), MVal::Int(3)])),
            ev(1, 2, 3, LOp::Push { l: 1, v: MVal::Int(3) }, Obs::Unit),
        ];
        assert!(linearizable(&h, &e, 10000).ok);
        // observes a after push(a,9) but b before push(b,3) where push(b,3) returned before push(a,9) invoked: needs b read first
        let e = vec![
            ev(0, 1, 10, LOp::Concat { a: 0, b: 1 }, Obs::Vals(vec![MVal::Int(1), MVal::Int(9), MVal::Int(2)])),
            ev(1, 4, 5, LOp::Push { l: 1, v: MVal::Int(3) }, Obs::Unit),
            ev(1, 6, 7, LOp::Push { l: 0, v: MVal::Int(9) }, Obs::Unit),
        ];
        assert!(linearizable(&h, &e, 10000).ok);
        // impossible: contains value never pushed
        let e = vec![ev(0, 1, 10, LOp::Concat { a: 0, b: 1 }, Obs::Vals(vec![MVal::Int(1), MVal::Int(7)]))];
        assert!(!linearizable(&h, &e, 10000).ok);
    }
}

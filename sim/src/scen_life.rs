//! C11: lifecycle histories (build runtime, compile version k, get/clone/call/
//! drop handle, drop package/runtime, failed reload) spread over simulated
//! threads, checked against the ownership reference model of DESIGN A.2 with
//! the allocator seam (JIT pages, poison) and tracked values as witnesses.

use crate::rng::{self, Rng};
use crate::sched::{self, SimCfg, Strategy};
use crate::sendable::Sendable;
use crate::tracked::{self, T24, Zst};
use crate::{RunResult, alloc, viol};
use roto::{FileTree, NoCtx, Package, RotoString, Runtime, TypedFunc, Val, library};
use serde::{Deserialize, Serialize};
use std::cell::RefCell;
use std::collections::BTreeMap;
use std::sync::Mutex;
use std::sync::atomic::{AtomicI64, AtomicU64, Ordering::SeqCst};

#[derive(Clone, Debug, PartialEq, Serialize, Deserialize)]
pub enum LifeOp {
    NewRuntime { r: usize, rid: u64 },
    CloneRuntime { src: usize, dst: usize },
    DropRuntime { r: usize },
    Compile { r: usize, p: usize, m: u64, k: u64 },
    CompileBroken { r: usize, m: u64, k: u64 },
    /// which: 0 = f(u64)->u64, 1 = s(String)->String, 2 = t(Tr)->Tr, 3 = the script's test case (get_tests)
    GetHandle { p: usize, h: usize, which: u8 },
    CloneHandle { src: usize, dst: usize },
    Call { h: usize, x: u64 },
    DropHandle { h: usize },
    DropPackage { p: usize },
    /// turn the handle in slot `h` into a plain closure (`TypedFunc::into_func`); it still is a holder
    IntoFunc { h: usize },
    /// `Runtime::add` one more registered constant (payload 5000+aid) to the runtime in slot `r`;
    /// scripts compiled from it (or from clones made afterwards) use the constant
    AddConstant { r: usize, aid: u64 },
    /// `Runtime::add` one more registered closure `xf<aid % 2>` capturing a tracked value with
    /// payload 6000+aid to the runtime in slot `r`
    AddFunction { r: usize, aid: u64 },
    /// Fault "the owner dies in a panic": the handle (`what` 0), package (1) or runtime (2) in
    /// `slot` is owned by a frame that panics; the unwinding of that panic releases it.
    DropUnwinding { what: u8, slot: usize },
}

#[derive(Clone, Debug, Serialize, Deserialize)]
pub struct LifeDesc {
    pub property: String,
    pub scenario: String,
    pub run_seed: u64,
    pub strategy: String,
    pub sched_seed: u64,
    /// executed on the main thread before the simulated threads start
    pub setup: Vec<LifeOp>,
    pub threads: Vec<Vec<LifeOp>>,
    pub teardown_seed: u64,
    /// (thread, operation index, k): that operation runs single-stepped and is preempted after
    /// exactly k instructions of code under test
    #[serde(default)]
    pub fine: Option<(usize, usize, u64)>,
    /// with `fine`: preempt right after the j-th atomic instruction of the operation instead of
    /// after k instructions
    #[serde(default)]
    pub fine_atomic: Option<u64>,
    /// allocator knob override (freed JIT blocks handed out again, role-preserving order);
    /// absent = drawn from the run seed
    #[serde(default)]
    pub page_reuse: Option<(bool, bool)>,
    #[serde(default)]
    pub schedule: Option<Vec<u8>>,
}

pub const N_RT: usize = 3;
pub const N_PK: usize = 5;
pub const N_HD: usize = 8;

// ------------------------------------------------------------------ host side

thread_local! {
    static HOSTLOG: RefCell<Vec<(&'static str, u64)>> = const { RefCell::new(Vec::new()) };
}
static MK_CALLS: Mutex<BTreeMap<u64, u64>> = Mutex::new(BTreeMap::new());
/// successful compilations per script version
static COMPILES: Mutex<BTreeMap<u64, u64>> = Mutex::new(BTreeMap::new());
/// values returned by calls, kept until after every module is gone: (value, expected text)
static KEPT_STR: Mutex<Vec<(Sendable<RotoString>, String)>> = Mutex::new(Vec::new());
static KEPT_OBJ: Mutex<Vec<(Sendable<Val<T24>>, u64)>> = Mutex::new(Vec::new());
static IN_CALL: AtomicI64 = AtomicI64::new(0);
static IN_COMPILE: AtomicI64 = AtomicI64::new(0);
static P_COMPILE_OVERLAP: AtomicU64 = AtomicU64::new(0);
static P_DROP_DURING_CALL: AtomicU64 = AtomicU64::new(0);
static P_LAST_HOLDER_FOREIGN: AtomicU64 = AtomicU64::new(0);
static P_UNWIND_DROPS: AtomicU64 = AtomicU64::new(0);
static P_UNWIND_LAST: AtomicU64 = AtomicU64::new(0);
static P_CALL_AFTER_PKG_AND_RT_GONE: AtomicU64 = AtomicU64::new(0);
static P_CALL_AFTER_FAILED_RELOAD: AtomicU64 = AtomicU64::new(0);
static P_SKIPPED: AtomicU64 = AtomicU64::new(0);
static P_EXECUTED: AtomicU64 = AtomicU64::new(0);
static P_CHECKS: AtomicU64 = AtomicU64::new(0);
static P_PAGES_UNOBSERVABLE: AtomicU64 = AtomicU64::new(0);
static FAILED_RELOADS: AtomicU64 = AtomicU64::new(0);

fn host(tag: &'static str, v: u64) {
    {
        let _mg = alloc::ModeGuard::new(alloc::MODE_PLAIN);
        HOSTLOG.with(|l| l.borrow_mut().push((tag, v)));
    }
    sched::point("host");
    check_not_before(tag);
}

fn take_hostlog() -> Vec<(&'static str, u64)> {
    let _mg = alloc::ModeGuard::new(alloc::MODE_PLAIN);
    HOSTLOG.with(|l| std::mem::take(&mut *l.borrow_mut()))
}

/// Two closures of the *same Rust type* with different captured state.
fn same_type_closure(t: T24) -> impl Fn() -> u64 + Send + Sync + 'static {
    move || {
        let c: &T24 = &t;
        let p = match c.checked_payload() {
            Ok(p) => p,
            Err(e) => {
                viol::record("stale-read", format!("state captured by a registered closure is not alive: {e}"));
                0
            }
        };
        host("cap", p);
        p
    }
}

/// A closure of a *different* Rust type with the same signature (its captured state has another
/// layout: the tracked value sits behind two words).
fn other_type_closure(t: T24) -> impl Fn() -> u64 + Send + Sync + 'static {
    let pad = (0x1111_1111_1111_1111u64, 0x2222_2222_2222_2222u64);
    move || {
        let c: &T24 = &t;
        let p = match c.checked_payload() {
            Ok(p) => p,
            Err(e) => {
                viol::record("stale-read", format!("state captured by a registered closure is not alive: {e}"));
                0
            }
        };
        if pad.0 != 0x1111_1111_1111_1111 || pad.1 != 0x2222_2222_2222_2222 {
            viol::record("wrong-result", format!("a registered closure was entered with another closure's state: padding reads {:#x} {:#x}", pad.0, pad.1));
        }
        host("cap", p);
        p
    }
}

fn mk_runtime(rid: u64) -> Runtime<NoCtx> {
    let mut rt = mk_runtime_base(rid);
    for (name, payload) in [("cap2", 600 + rid), ("cap3", 700 + rid)] {
        let f = roto::Function::new(name, "closure registered with Runtime::add", vec![], same_type_closure(T24::new(payload)), roto::location!()).expect("function");
        rt.add(f).expect("add function");
    }
    rt
}

/// A registered type without destructor and clone function (`#[copy]`), larger than two words
#[derive(Clone, Copy, PartialEq, Debug)]
pub struct Limits {
    low: u64,
    high: u64,
    step: u64,
}

fn mk_runtime_base(rid: u64) -> Runtime<NoCtx> {
    let cap = T24::new(100 + rid);
    let lim = Val(Limits { low: 11 + rid, high: 22, step: 33 });
    let k = Val(T24::new(200 + rid));
    let ko: Option<Val<T24>> = Some(Val(T24::new(300 + rid)));
    let ks: Option<RotoString> = Some(RotoString::from(format!("ks{rid}")));
    let kl: roto::List<u64> = roto::List::from(vec![rid, rid + 1]);
    let zg = tracked::ZGuard::new();
    Runtime::from_lib(library! {
        #[clone] type Tr = Val<T24>;
        #[clone] type Zt = Val<Zst>;
        fn mkz() -> Val<Zst> {
            Val(Zst::new())
        }
        #[copy] type Lim = Val<Limits>;
        impl Val<Limits> {
            fn low(self) -> u64 { self.low }
            fn high(self) -> u64 { self.high }
            fn step(self) -> u64 { self.step }
        }
        const LIM: Val<Limits> = lim;
        const K: Val<T24> = k;
        const KO: Option<Val<T24>> = ko;
        const KS: Option<RotoString> = ks;
        const KL: roto::List<u64> = kl;
        fn mk(x: u64) -> Val<T24> {
            {
                let _mg = alloc::ModeGuard::new(alloc::MODE_PLAIN);
                *MK_CALLS.lock().unwrap().entry(x).or_insert(0) += 1;
            }
            host("mk", x);
            Val(T24::new(x))
        }
        fn val(t: Val<T24>) -> u64 {
            let p = match t.0.checked_payload() {
                Ok(p) => p,
                Err(e) => {
                    viol::record("stale-read", format!("host function val() received a tracked value that is not alive: {e}"));
                    0
                }
            };
            host("val", p);
            p
        }
        fn log(x: u64) {
            host("log", x);
        }
        let cap = move || -> u64 {
            let c: &T24 = &cap;
            let p = match c.checked_payload() {
                Ok(p) => p,
                Err(e) => {
                    viol::record("stale-read", format!("state captured by the registered closure is not alive: {e}"));
                    0
                }
            };
            host("cap", p);
            p
        };
        // a closure whose captured state is zero-sized but has a destructor
        let zcap = move || -> u64 {
            let _g: &tracked::ZGuard = &zg;
            host("zcap", 4);
            4
        };
    })
    .expect("runtime")
}

/// Payload of the script constant `C` of version `k`. The script text depends on the version
/// (and on the constants its runtime carries) only, never on which compilation it is: compiling
/// the same text again - a reload of an unchanged script - is a history like any other.
pub fn c_payload(k: u64) -> u64 {
    10_000 + 10 * k
}

/// `Inner` has three fields instead of one in these versions. (Not tied to the parity of `k`:
/// the position of `Inner` in the compiler's type pool already depends on that.)
pub fn wide_inner(k: u64) -> bool {
    k % 3 == 1
}

/// length of the chain of constants that depend on script functions (`ge8()` is used by `f`)
const CHAIN: u64 = 8;

pub fn many_constants(k: u64) -> u64 {
    if k == 6 { 72 } else { 0 }
}

pub fn script(m: u64, k: u64, broken: bool, extras: &[u64]) -> String {
    // constants added to the runtime after its construction (payload 5000+aid, name X<aid>)
    let ex_body = if extras.is_empty() {
        "0".to_string()
    } else {
        extras.iter().map(|p| if *p >= 6000 { format!("xf{}()", (p - 6000) % 2) } else { format!("val(X{})", (p - 5000) % 2) }).collect::<Vec<_>>().join(" + ")
    };
    // version 6 carries 72 more script constants (their storage is more than 1 KiB)
    let nmany = many_constants(k);
    let many_decl: String = (0..nmany).map(|i| if i % 10 == 9 { format!("const N{i}_{k}: String = \"n{i}\";\n") } else { format!("const N{i}_{k}: u64 = {};\n", i + k) }).collect();
    // (one statement per constant: a single 81-term `+` chain takes roto's front end tens of seconds)
    let many_body = format!("let acc = 0; {} acc", (0..nmany).filter(|i| i % 10 != 9).map(|i| format!("acc = acc + N{i}_{k};")).collect::<Vec<_>>().join(" "));
    let tail = format!("{many_decl}fn ex_{k}() -> u64 {{ {ex_body} }}\nfn many_{k}() -> u64 {{ {many_body} }}\n");
    script_base(m, k, broken) + &tail
}

fn script_base(m: u64, k: u64, broken: bool) -> String {
    let c0 = c_payload(k);
    let _ = m;
    let (c1, c2, c3) = (c0 + 1, c0 + 2, c0 + 3);
    let b = if broken { "let q: bool = 3;" } else { "" };
    // The same seven identifiers play different roles in different versions, and dependent
    // constants are declared before or after what they depend on: the process-wide interner
    // orders identifiers by first appearance, so which versions were compiled before (or are
    // being compiled concurrently) changes every identifier-ordered map inside the compiler.
    let n = |role: u64| format!("Q{}", (role + k) % 7);
    let (c, d, s, l, lt, o, rc) = (n(0), n(1), n(2), n(3), n(4), n(5), n(6));
    // `Inner`/`Outer`/`Plain` have the same names and field names in every version, but the
    // fields of `Inner` are wider in some versions (16 or 24 bytes; its field names differ from
    // `Plain`'s, or the wide one would be the same structural type as `Plain`)
    let inner_ty = if wide_inner(k) { "u64" } else { "u8" };
    let decl_c = format!("const {c}: Tr = mk({c0});");
    let decl_d = format!("const {d}: Tr = {c};");
    let (first, second) = if k % 2 == 1 { (decl_d, decl_c) } else { (decl_c, decl_d) };
    // A chain of small constants whose initialisers call script functions that read the earlier
    // ones: each getter is compiled (with the address of its constant in it) before the later
    // constants exist, so storage for constants that moves when more are added is a stale read.
    // ge_n() = 2^n * (k + 1) - 1.
    let mut chain = format!("const E0: u64 = {k};\nfn ge0() -> u64 {{ E0 }}\n");
    for i in 1..=CHAIN {
        chain.push_str(&format!("const E{i}: u64 = ge{}() + 1;\nfn ge{i}() -> u64 {{ E{i} + ge{}() }}\n", i - 1, i - 1));
    }
    format!(
        r#"record Rec{k} {{ n: u64, t: Tr, s: String }}
record Plain {{ a: u64, b: u64, c: u64 }}
record Inner {{ ia: u64, ib: {inner_ty}, ic: {inner_ty} }}
record Outer {{ i: Inner, z: u64 }}
const PC: Plain = Plain {{ a: {k}, b: 2, c: 3 }};
{chain}{first}
const {rc}: Rec{k} = Rec{k} {{ n: {k}, t: mk({c3}), s: "r{k}" }};
{second}
const {s}: String = "v{k}";
const {l}: List[u64] = [{k}, {k}];
const {lt}: List[Tr] = [mk({c1})];
const {o}: Tr? = Some(mk({c2}));
fn helper_{k}(x: u64) -> u64 {{ x * {k} }}
fn opt_{k}() -> u64 {{
    match {o} {{
        Some(v) => val(v),
        None => 0,
    }}
}}
fn ko_{k}() -> u64 {{
    match KO {{
        Some(v) => val(v),
        None => 0,
    }}
}}
fn ks_{k}() -> String {{
    match KS {{
        Some(v) => v,
        None => "none",
    }}
}}
fn f(x: u64) -> u64 {{
    {b}
    log(x);
    let part_{k} = helper_{k}(x);
    let rc = {rc};
    // (short sums per statement: roto's front end slows down sharply with the length of a `+` chain)
    let acc = part_{k} + val({c}) + val({d});
    acc = acc + val(K) + cap() + {l}.len();
    acc = acc + {lt}.len() + opt_{k}() + rc.n;
    acc = acc + val(rc.t) + ko_{k}() + KL.len();
    acc = acc + ex_{k}() + many_{k}() + ge8();
    let pl = PC;
    pl.a = pl.a + x;
    // (three values of the record whose nested record differs between versions, all alive at once)
    let o = Outer {{ i: Inner {{ ia: 5, ib: 20, ic: 30 }}, z: x }};
    let o2 = Outer {{ i: Inner {{ ia: 7, ib: 21, ic: 31 }}, z: x + 1 }};
    let o3 = Outer {{ i: Inner {{ ia: 9, ib: 22, ic: 32 }}, z: x + 2 }};
    acc = acc + pl.a + pl.c + o.z + o.i.ia;
    acc = acc + o2.z + o2.i.ia + o3.z + o3.i.ia;
    if o.i.ib == 20 && o.i.ic == 30 {{ acc = acc + 50; }}
    if o2.i.ib == 21 && o2.i.ic == 31 {{ acc = acc + 50; }}
    if o3.i.ib == 22 && o3.i.ic == 32 {{ acc = acc + 50; }}
    // (registered constants of plain-data types: nothing to drop, but storage the code points into)
    acc = acc + LIM.low() + LIM.high() + LIM.step();
    if IpAddr.LOCALHOSTV4 == 127.0.0.1 {{ acc = acc + 1; }}
    // (the string constants hold this version's text)
    if {s} == "v{k}" && rc.s == "r{k}" {{ acc = acc + 1; }}
    acc + cap2() + cap3() + zcap() + usez_{k}() - 1
}}
const ZC: Zt = mkz();
fn usez_{k}() -> u64 {{
    let z = ZC;
    let y = z;
    1
}}
fn lit() -> String {{ "literal-of-version-{k}" }}
fn lits_{k}() -> String {{ "a{k}" + "b{k}" + "c{k}" + "d{k}" }}
fn s(a: String) -> String {{ let rc = {rc}; a + {s} + rc.s + ks_{k}() + lits_{k}() }}
test keeps_{k} {{
    if val({c}) == {c0} && cap() > 0 {{ accept }} else {{ reject }}
}}
fn t(v: Tr) -> Tr {{ if val(v) > 5 {{ {c} }} else {{ v }} }}
"#
    )
}

// ------------------------------------------------------------------ pools and model

struct RtEnt {
    rid: u64,
    rt: Sendable<Runtime<NoCtx>>,
    /// payloads of the constants added to this runtime value after construction
    extras: Vec<u64>,
}
struct PkEnt {
    m: u64,
    pkg: Sendable<Package<NoCtx>>,
}
enum Hf {
    /// closure made by `into_func` from an `F` handle
    C(Sendable<Box<dyn Fn(u64) -> u64>>),
    /// a test case obtained from `Package::get_tests`
    Test(Sendable<Box<dyn Fn() -> Result<(), ()>>>),
    /// `fn lit() -> String` returning a string literal unchanged
    L(Sendable<TypedFunc<NoCtx, fn() -> RotoString>>),
    F(Sendable<TypedFunc<NoCtx, fn(u64) -> u64>>),
    S(Sendable<TypedFunc<NoCtx, fn(RotoString) -> RotoString>>),
    T(Sendable<TypedFunc<NoCtx, fn(Val<T24>) -> Val<T24>>>),
}

/// May runtimes, packages and handles cross threads in the tree under test?
fn objects_may_cross_threads() -> bool {
    crate::is_send_sync!(Runtime<NoCtx>) && crate::is_send_sync!(Package<NoCtx>) && crate::is_send_sync!(TypedFunc<NoCtx, fn(u64) -> u64>)
}
struct HdEnt {
    m: u64,
    f: Hf,
}
#[derive(Default)]
struct Pools {
    rts: Vec<Option<RtEnt>>,
    pks: Vec<Option<PkEnt>>,
    hds: Vec<Option<HdEnt>>,
}
static POOLS: Mutex<Option<Pools>> = Mutex::new(None);

#[derive(Clone, Debug)]
struct Mod {
    rid: u64,
    k: u64,
    extras: Vec<u64>,
    pkg: bool,
    handles: i64,
    compiled_by: usize,
    after_failed_reload: bool,
}
#[derive(Default)]
struct Model {
    /// payload of an added constant -> number of live runtime values carrying it
    extra_holders: BTreeMap<u64, i64>,
    rt_clones: BTreeMap<u64, i64>,
    mods: BTreeMap<u64, Mod>,
}
static MODEL: Mutex<Option<Model>> = Mutex::new(None);

fn with_pools<R>(f: impl FnOnce(&mut Pools) -> R) -> R {
    let _mg = alloc::ModeGuard::new(alloc::MODE_PLAIN);
    let mut g = POOLS.lock().unwrap();
    f(g.as_mut().expect("pools"))
}
fn with_model<R>(f: impl FnOnce(&mut Model) -> R) -> R {
    let _mg = alloc::ModeGuard::new(alloc::MODE_PLAIN);
    let mut g = MODEL.lock().unwrap();
    f(g.as_mut().expect("model"))
}

impl Model {
    fn mod_alive(&self, m: u64) -> bool {
        self.mods.get(&m).map(|x| x.pkg || x.handles > 0).unwrap_or(false)
    }
    fn rt_alive(&self, rid: u64) -> bool {
        self.rt_clones.get(&rid).copied().unwrap_or(0) > 0 || self.mods.iter().any(|(_, x)| x.rid == rid && (x.pkg || x.handles > 0))
    }
}

/// Oracle 2 ("not before"): everything the model says still has a holder is alive.
fn check_not_before(site: &str) {
    let _mg = alloc::ModeGuard::new(alloc::MODE_PLAIN);
    if viol::any() {
        return;
    }
    P_CHECKS.fetch_add(1, SeqCst);
    let live = tracked::live_by_payload();
    let g = MODEL.lock().unwrap();
    let Some(model) = g.as_ref() else { return };
    let mut alive_by_version: BTreeMap<u64, usize> = BTreeMap::new();
    for (&m, x) in &model.mods {
        if !(x.pkg || x.handles > 0) {
            continue;
        }
        *alive_by_version.entry(x.k).or_insert(0) += 1;
        let (pl, pf) = alloc::module_pages(m as u32);
        if pl == 0 && pf == 0 {
            // The allocator seam saw no page-aligned block for this compilation: the machine code does not
            // come from the global allocator (another memory provider, a shared or cached module). Its
            // liveness is then not observable here; calls and the crash reporter still are.
            P_PAGES_UNOBSERVABLE.fetch_add(1, SeqCst);
        } else if pl == 0 || pf > 0 {
            viol::record(
                "released-too-early",
                format!("at {site}: module m{m} still has a holder (package alive: {}, live handles: {}) but its machine-code pages are not all alive: {pl} live, {pf} freed", x.pkg, x.handles),
            );
            return;
        }
    }
    for (&k, &n) in &alive_by_version {
        let c = live.get(&c_payload(k)).copied().unwrap_or(0);
        let c1 = live.get(&(c_payload(k) + 1)).copied().unwrap_or(0);
        let c2 = live.get(&(c_payload(k) + 2)).copied().unwrap_or(0);
        let c3 = live.get(&(c_payload(k) + 3)).copied().unwrap_or(0);
        if c < 2 * n || c1 < n || c2 < n || c3 < n {
            viol::record(
                "released-too-early",
                format!("at {site}: {n} module(s) compiled from version {k} still have a holder, but their script constants are not all alive: live C/D instances {c} (need {}), LT element {c1}, optional constant O {c2}, record constant RC.t {c3} (need {n} each)", 2 * n),
            );
            return;
        }
    }
    let mut need: Vec<u64> = model.extra_holders.iter().filter(|(_, n)| **n > 0).map(|(p, _)| *p).collect();
    for x in model.mods.values() {
        if x.pkg || x.handles > 0 {
            need.extend(x.extras.iter().copied());
        }
    }
    for p in need {
        if live.get(&p).copied().unwrap_or(0) < 1 {
            viol::record(
                "released-too-early",
                format!("at {site}: the registered {} with payload {p} (added to a runtime with Runtime::add) was released although a runtime carrying it or a module compiled with it is still alive", if p >= 6000 { format!("closure xf{}", (p - 6000) % 2) } else { format!("constant X{}", (p - 5000) % 2) }),
            );
            return;
        }
    }
    let rts_alive = model.rt_clones.keys().filter(|rid| model.rt_alive(**rid)).count() as i64;
    if tracked::zguard_live() < rts_alive {
        viol::record(
            "released-too-early",
            format!("at {site}: {rts_alive} runtime(s) still have a clone or a module compiled from them alive, but only {} of the zero-sized guards captured by their registered closure zcap are", tracked::zguard_live()),
        );
        return;
    }
    for (&rid, _) in &model.rt_clones {
        if model.rt_alive(rid) {
            for (what, p) in [("registered constant K", 200 + rid), ("state captured by the registered closure", 100 + rid), ("state captured by the registered closure cap2", 600 + rid), ("state captured by the registered closure cap3", 700 + rid), ("the tracked value inside the registered constant KO: Option<..>", 300 + rid)] {
                if live.get(&p).copied().unwrap_or(0) < 1 {
                    viol::record(
                        "released-too-early",
                        format!("at {site}: {what} of runtime r{rid} was released although a runtime clone or a module compiled from it is still alive"),
                    );
                    return;
                }
            }
        }
    }
}

// ------------------------------------------------------------------ executing operations

fn drop_rt(e: RtEnt) {
    with_model(|m| {
        *m.rt_clones.entry(e.rid).or_insert(0) -= 1;
        for p in &e.extras {
            *m.extra_holders.entry(*p).or_insert(0) -= 1;
        }
    });
    note_drop();
    release(e, false);
}
fn drop_pk(e: PkEnt) {
    let me = sched::tid();
    let mut last = false;
    with_model(|m| {
        if let Some(x) = m.mods.get_mut(&e.m) {
            x.pkg = false;
            last = x.handles == 0;
            if x.handles == 0 && x.compiled_by != me {
                P_LAST_HOLDER_FOREIGN.fetch_add(1, SeqCst);
            }
        }
    });
    note_drop();
    release(e, last);
}
fn drop_hd(e: HdEnt) {
    let me = sched::tid();
    let mut last = false;
    with_model(|m| {
        if let Some(x) = m.mods.get_mut(&e.m) {
            x.handles -= 1;
            last = x.handles == 0 && !x.pkg;
            if x.handles == 0 && !x.pkg && x.compiled_by != me {
                P_LAST_HOLDER_FOREIGN.fetch_add(1, SeqCst);
            }
        }
    });
    note_drop();
    release(e, last);
}
thread_local! {
    /// set by `DropUnwinding`: the next release on this thread happens during a panic's unwinding
    static UNWIND_NEXT: std::cell::Cell<bool> = const { std::cell::Cell::new(false) };
}
struct InjectedUnwind;

/// Every explicit drop of a runtime, package or handle goes through here.
fn release<T>(v: T, last_holder: bool) {
    if UNWIND_NEXT.with(|u| u.replace(false)) {
        P_UNWIND_DROPS.fetch_add(1, SeqCst);
        if last_holder {
            P_UNWIND_LAST.fetch_add(1, SeqCst);
        }
        // (`resume_unwind` raises the panic without running the panic hook; `thread::panicking()`
        // is true while `_owned` is dropped)
        let r = std::panic::catch_unwind(std::panic::AssertUnwindSafe(move || {
            let _owned = v;
            std::panic::resume_unwind(Box::new(InjectedUnwind));
        }));
        match r {
            Err(e) if e.is::<InjectedUnwind>() => {}
            Err(e) => std::panic::resume_unwind(e),
            Ok(()) => unreachable!(),
        }
    } else {
        drop(v);
    }
}

fn note_drop() {
    if IN_CALL.load(SeqCst) > 0 {
        P_DROP_DURING_CALL.fetch_add(1, SeqCst);
    }
}

fn put_rt(slot: usize, e: RtEnt) {
    let old = with_pools(|p| p.rts[slot].replace(e));
    if let Some(o) = old {
        drop_rt(o);
    }
}
fn put_pk(slot: usize, e: PkEnt) {
    let old = with_pools(|p| p.pks[slot].replace(e));
    if let Some(o) = old {
        drop_pk(o);
    }
}
fn put_hd(slot: usize, e: HdEnt) {
    let old = with_pools(|p| p.hds[slot].replace(e));
    if let Some(o) = old {
        drop_hd(o);
    }
}
/// give an object back to the slot it was taken from; if the slot was refilled meanwhile, drop ours
fn back_rt(slot: usize, e: RtEnt) {
    let mine = with_pools(|p| if p.rts[slot].is_none() { p.rts[slot] = Some(e); None } else { Some(e) });
    if let Some(e) = mine {
        drop_rt(e);
    }
}
fn back_pk(slot: usize, e: PkEnt) {
    let mine = with_pools(|p| if p.pks[slot].is_none() { p.pks[slot] = Some(e); None } else { Some(e) });
    if let Some(e) = mine {
        drop_pk(e);
    }
}
fn back_hd(slot: usize, e: HdEnt) {
    let mine = with_pools(|p| if p.hds[slot].is_none() { p.hds[slot] = Some(e); None } else { Some(e) });
    if let Some(e) = mine {
        drop_hd(e);
    }
}

fn report_text(e: &roto::RotoReport) -> String {
    let mut s = String::new();
    let _ = e.write(&mut s, false);
    s.chars().filter(|c| !c.is_control() || *c == ' ').take(300).collect()
}

fn label(op: &LifeOp) -> &'static str {
    match op {
        LifeOp::NewRuntime { .. } => "new-runtime",
        LifeOp::CloneRuntime { .. } => "clone-runtime",
        LifeOp::DropRuntime { .. } => "drop-runtime",
        LifeOp::Compile { .. } => "compile",
        LifeOp::CompileBroken { .. } => "compile-broken",
        LifeOp::GetHandle { .. } => "get-handle",
        LifeOp::CloneHandle { .. } => "clone-handle",
        LifeOp::Call { .. } => "call",
        LifeOp::DropHandle { .. } => "drop-handle",
        LifeOp::DropPackage { .. } => "drop-package",
        LifeOp::DropUnwinding { .. } => "drop-unwinding",
        LifeOp::IntoFunc { .. } => "into-func",
        LifeOp::AddConstant { .. } => "add-constant",
        LifeOp::AddFunction { .. } => "add-function",
    }
}

fn exec(op: &LifeOp) {
    {
        let _mg = alloc::ModeGuard::new(alloc::MODE_PLAIN);
        sched::set_label(label(op));
    }
    check_not_before("operation start");
    // a panic inside roto code must become the run's verdict at once: unwinding drops objects
    // behind the model's back, and everything observed afterwards would be misleading
    let done = match std::panic::catch_unwind(std::panic::AssertUnwindSafe(|| exec_inner(op))) {
        Ok(d) => d,
        Err(e) => {
            let _mg = alloc::ModeGuard::new(alloc::MODE_PLAIN);
            let msg = if let Some(s) = e.downcast_ref::<&str>() {
                s.to_string()
            } else if let Some(s) = e.downcast_ref::<String>() {
                s.clone()
            } else {
                "panic".to_string()
            };
            viol::record("panic", format!("operation {} panicked: {}", label(op), msg.chars().take(300).collect::<String>()));
            false
        }
    };
    if done {
        P_EXECUTED.fetch_add(1, SeqCst);
    } else {
        P_SKIPPED.fetch_add(1, SeqCst);
    }
    check_not_before("operation end");
}

fn exec_inner(op: &LifeOp) -> bool {
    let me = sched::tid();
    match op {
        LifeOp::NewRuntime { r, rid } => {
            let rt = mk_runtime(*rid);
            with_model(|m| *m.rt_clones.entry(*rid).or_insert(0) += 1);
            put_rt(*r, RtEnt { rid: *rid, rt: Sendable(rt), extras: vec![] });
            true
        }
        LifeOp::CloneRuntime { src, dst } => {
            let Some(e) = with_pools(|p| p.rts[*src].take()) else { return false };
            let c = RtEnt { rid: e.rid, rt: Sendable(e.rt.0.clone()), extras: e.extras.clone() };
            with_model(|m| {
                *m.rt_clones.entry(c.rid).or_insert(0) += 1;
                for p in &c.extras {
                    *m.extra_holders.entry(*p).or_insert(0) += 1;
                }
            });
            back_rt(*src, e);
            put_rt(*dst, c);
            true
        }
        LifeOp::DropRuntime { r } => {
            let Some(e) = with_pools(|p| p.rts[*r].take()) else { return false };
            drop_rt(e);
            true
        }
        LifeOp::Compile { r, p, m, k } => {
            let Some(e) = with_pools(|p| p.rts[*r].take()) else { return false };
            let src = script(*m, *k, false, &e.extras);
            let extras = e.extras.clone();
            if IN_COMPILE.fetch_add(1, SeqCst) > 0 {
                P_COMPILE_OVERLAP.fetch_add(1, SeqCst);
            }
            let res = {
                let old_mod = alloc::set_module(*m as u32);
                let _cg = alloc::ModeGuard::new(alloc::MODE_COMPILE);
                let r = FileTree::test_file("script", &src, 0).compile(&e.rt);
                alloc::set_module(old_mod);
                r
            };
            IN_COMPILE.fetch_sub(1, SeqCst);
            let rid = e.rid;
            match res {
                Ok(pkg) => {
                    {
                        let _mg = alloc::ModeGuard::new(alloc::MODE_PLAIN);
                        *COMPILES.lock().unwrap().entry(*k).or_insert(0) += 1;
                    }
                    let failed_before = FAILED_RELOADS.load(SeqCst) > 0;
                    with_model(|md| {
                        md.mods.insert(*m, Mod { rid, k: *k, extras: extras.clone(), pkg: true, handles: 0, compiled_by: me, after_failed_reload: failed_before });
                    });
                    back_rt(*r, e);
                    put_pk(*p, PkEnt { m: *m, pkg: Sendable(pkg) });
                }
                Err(rep) => {
                    back_rt(*r, e);
                    viol::record("compile-failed", format!("version {k} of the script did not compile: {}", report_text(&rep)));
                }
            }
            true
        }
        LifeOp::CompileBroken { r, m, k } => {
            let Some(e) = with_pools(|p| p.rts[*r].take()) else { return false };
            let src = script(*m, *k, true, &e.extras);
            let res = {
                let old_mod = alloc::set_module(*m as u32);
                let _cg = alloc::ModeGuard::new(alloc::MODE_COMPILE);
                let r = FileTree::test_file("script", &src, 0).compile(&e.rt);
                alloc::set_module(old_mod);
                r
            };
            back_rt(*r, e);
            FAILED_RELOADS.fetch_add(1, SeqCst);
            match res {
                Ok(pkg) => {
                    viol::record("ill-typed-script-compiled", format!("the broken version {k} compiled"));
                    drop(pkg);
                }
                Err(_) => {
                    let (pl, _) = alloc::module_pages(*m as u32);
                    let live = tracked::live_by_payload();
                    let _ = live;
                    if pl != 0 {
                        viol::record("failed-reload-left-state", format!("failed compilation of m{m} left {pl} live page blocks behind"));
                    }
                }
            }
            true
        }
        LifeOp::GetHandle { p, h, which } => {
            let Some(mut e) = with_pools(|pl| pl.pks[*p].take()) else { return false };
            let f = match which {
                0 => e.pkg.get_function::<fn(u64) -> u64>("f").map(|f| Hf::F(Sendable(f))).map_err(|x| x.to_string()),
                1 => e.pkg.get_function::<fn(RotoString) -> RotoString>("s").map(|f| Hf::S(Sendable(f))).map_err(|x| x.to_string()),
                4 => e.pkg.get_function::<fn() -> RotoString>("lit").map(|f| Hf::L(Sendable(f))).map_err(|x| x.to_string()),
                3 => {
                    let mut tests: Vec<_> = e.pkg.get_tests().collect();
                    if tests.len() == 1 {
                        let t = tests.remove(0);
                        let b: Box<dyn Fn() -> Result<(), ()>> = Box::new(move || t.run(&mut NoCtx));
                        Ok(Hf::Test(Sendable(b)))
                    } else {
                        Err(format!("get_tests returned {} test cases, the script has 1", tests.len()))
                    }
                }
                _ => e.pkg.get_function::<fn(Val<T24>) -> Val<T24>>("t").map(|f| Hf::T(Sendable(f))).map_err(|x| x.to_string()),
            };
            let m = e.m;
            match f {
                Ok(f) => {
                    with_model(|md| {
                        if let Some(x) = md.mods.get_mut(&m) {
                            x.handles += 1;
                        }
                    });
                    back_pk(*p, e);
                    put_hd(*h, HdEnt { m, f });
                }
                Err(err) => {
                    back_pk(*p, e);
                    viol::record("get-function-failed", format!("get_function on module m{m}: {err}"));
                }
            }
            true
        }
        LifeOp::CloneHandle { src, dst } => {
            let Some(e) = with_pools(|p| p.hds[*src].take()) else { return false };
            let f2 = match &e.f {
                Hf::C(_) | Hf::Test(_) => None,
                Hf::L(f) => Some(Hf::L(f.clone())),
                Hf::F(f) => Some(Hf::F(f.clone())),
                Hf::S(f) => Some(Hf::S(f.clone())),
                Hf::T(f) => Some(Hf::T(f.clone())),
            };
            let Some(f2) = f2 else {
                back_hd(*src, e);
                return false;
            };
            let c = HdEnt { m: e.m, f: f2 };
            with_model(|md| {
                if let Some(x) = md.mods.get_mut(&c.m) {
                    x.handles += 1;
                }
            });
            back_hd(*src, e);
            put_hd(*dst, c);
            true
        }
        LifeOp::Call { h, x } => {
            let Some(e) = with_pools(|p| p.hds[*h].take()) else { return false };
            let (rid, k, pkg_alive, rt_clones, afr, extras) = with_model(|md| {
                let x = md.mods.get(&e.m).cloned();
                match x {
                    Some(x) => (x.rid, x.k, x.pkg, md.rt_clones.get(&x.rid).copied().unwrap_or(0), x.after_failed_reload, x.extras.clone()),
                    None => (0, 0, false, 0, false, vec![]),
                }
            });
            if !pkg_alive && rt_clones == 0 {
                P_CALL_AFTER_PKG_AND_RT_GONE.fetch_add(1, SeqCst);
            }
            if FAILED_RELOADS.load(SeqCst) > 0 && !afr {
                P_CALL_AFTER_FAILED_RELOAD.fetch_add(1, SeqCst);
            }
            let c = c_payload(k);
            let _ = take_hostlog();
            IN_CALL.fetch_add(1, SeqCst);
            match &e.f {
                Hf::F(_) | Hf::C(_) => {
                    let got = match &e.f {
                        Hf::F(f) => f.call(*x),
                        Hf::C(c) => (c.0)(*x),
                        _ => unreachable!(),
                    };
                    let log = take_hostlog();
                    let many: u64 = (0..many_constants(k)).filter(|i| i % 10 != 9).map(|i| i + k).sum();
                    let want = x.wrapping_mul(k) + 2 * c + (200 + rid) + (100 + rid) + 2 + 1 + (c + 2) + k + (c + 3) + (300 + rid) + 2 + extras.iter().sum::<u64>() + many + (600 + rid) + (700 + rid) + (k + x) + 3 + x + 5 + (x + 1 + 7) + (x + 2 + 9) + 150 + (11 + rid) + 55 + 1 + 1 + 4 + (256 * (k + 1) - 1);
                    let mut want_log: Vec<(&str, u64)> = vec![("log", *x), ("val", c), ("val", c), ("val", 200 + rid), ("cap", 100 + rid), ("val", c + 2), ("val", c + 3), ("val", 300 + rid)];
                    want_log.extend(extras.iter().map(|p| if *p >= 6000 { ("cap", *p) } else { ("val", *p) }));
                    want_log.push(("cap", 600 + rid));
                    want_log.push(("cap", 700 + rid));
                    want_log.push(("zcap", 4));
                    if got != want || log != want_log {
                        viol::record(
                            "wrong-result",
                            format!("f({x}) of module m{} (version {k}, runtime r{rid}) returned {got} with host calls {log:?}; expected {want} with {want_log:?}", e.m),
                        );
                    }
                }
                Hf::S(f) => {
                    // alternate between `call` and `call_tuple`
                    let got = if x % 2 == 0 { f.call(RotoString::from("ab")) } else { f.call_tuple(&mut NoCtx, (RotoString::from("ab"),)) };
                    let log = take_hostlog();
                    let want = format!("abv{k}r{k}ks{rid}a{k}b{k}c{k}d{k}");
                    {
                        let s: &str = got.as_ref();
                        if s != want || !log.is_empty() {
                            viol::record("wrong-result", format!("s(\"ab\") of module m{} (version {k}) returned {s:?} with host calls {log:?}", e.m));
                        }
                    }
                    let _mg = alloc::ModeGuard::new(alloc::MODE_PLAIN);
                    let mut g = KEPT_STR.lock().unwrap();
                    if g.len() < 16 {
                        g.push((Sendable(got), want));
                    }
                }
                Hf::L(f) => {
                    let got = f.call();
                    let log = take_hostlog();
                    let want = format!("literal-of-version-{k}");
                    {
                        let s: &str = got.as_ref();
                        if s != want || !log.is_empty() {
                            viol::record("wrong-result", format!("lit() of module m{} (version {k}) returned {s:?} with host calls {log:?}", e.m));
                        }
                    }
                    let _mg = alloc::ModeGuard::new(alloc::MODE_PLAIN);
                    let mut g = KEPT_STR.lock().unwrap();
                    if g.len() < 16 {
                        g.push((Sendable(got), want));
                    }
                }
                Hf::Test(t) => {
                    let got = (t.0)();
                    let log = take_hostlog();
                    let want_log: Vec<(&str, u64)> = vec![("val", c), ("cap", 100 + rid)];
                    if got != Ok(()) || log != want_log {
                        viol::record("wrong-result", format!("test case of module m{} (version {k}) returned {got:?} with host calls {log:?}; expected Ok with {want_log:?}", e.m));
                    }
                }
                Hf::T(f) => {
                    let arg = if x % 2 == 0 { 3 } else { 7 };
                    let got = f.call(Val(T24::new(arg)));
                    let log = take_hostlog();
                    let want = if arg > 5 { c } else { arg };
                    match got.0.checked_payload() {
                        Ok(p) if p == want && log == vec![("val", arg)] => {
                            let _mg = alloc::ModeGuard::new(alloc::MODE_PLAIN);
                            let mut g = KEPT_OBJ.lock().unwrap();
                            if g.len() < 16 {
                                g.push((Sendable(got), want));
                            }
                        }
                        other => viol::record("wrong-result", format!("t({arg}) of module m{} returned {other:?} with host calls {log:?}; expected payload {want}", e.m)),
                    }
                }
            }
            IN_CALL.fetch_sub(1, SeqCst);
            back_hd(*h, e);
            true
        }
        LifeOp::DropHandle { h } => {
            let Some(e) = with_pools(|p| p.hds[*h].take()) else { return false };
            drop_hd(e);
            true
        }
        LifeOp::DropPackage { p } => {
            let Some(e) = with_pools(|pl| pl.pks[*p].take()) else { return false };
            drop_pk(e);
            true
        }
        LifeOp::DropUnwinding { what, slot } => {
            let inner = match what {
                0 => LifeOp::DropHandle { h: *slot },
                1 => LifeOp::DropPackage { p: *slot },
                _ => LifeOp::DropRuntime { r: *slot },
            };
            UNWIND_NEXT.with(|u| u.set(true));
            let done = exec_inner(&inner);
            // (an empty slot: nothing was released)
            UNWIND_NEXT.with(|u| u.set(false));
            done
        }
        LifeOp::AddConstant { r, aid } => {
            let Some(mut e) = with_pools(|p| p.rts[*r].take()) else { return false };
            // names come from a pool of two (X0, X1): two clones of one runtime can carry constants
            // of the same name with different values, and their scripts then have the same text
            let payload = 5000 + aid;
            let name = format!("X{}", aid % 2);
            if e.extras.iter().any(|p| *p < 6000 && (p - 5000) % 2 == aid % 2) {
                back_rt(*r, e);
                return false;
            }
            let v = Val(T24::new(payload));
            let res = roto::Constant::new(name.as_str(), "added after construction", v, roto::location!()).and_then(|c| e.rt.0.add(c));
            match res {
                Ok(()) => {
                    e.extras.push(payload);
                    with_model(|m| *m.extra_holders.entry(payload).or_insert(0) += 1);
                }
                Err(err) => viol::record("registration-failed", format!("Runtime::add of constant {name}: {err}")),
            }
            back_rt(*r, e);
            true
        }
        LifeOp::AddFunction { r, aid } => {
            let Some(mut e) = with_pools(|p| p.rts[*r].take()) else { return false };
            let payload = 6000 + aid;
            let name = format!("xf{}", aid % 2);
            if e.extras.iter().any(|p| *p >= 6000 && (p - 6000) % 2 == aid % 2) {
                back_rt(*r, e);
                return false;
            }
            // closures of two different Rust types (two trampolines) under the two names
            let res = if aid % 3 == 0 {
                roto::Function::new(name.as_str(), "closure added after construction", vec![], other_type_closure(T24::new(payload)), roto::location!())
            } else {
                roto::Function::new(name.as_str(), "closure added after construction", vec![], same_type_closure(T24::new(payload)), roto::location!())
            }
            .and_then(|f| e.rt.0.add(f));
            match res {
                Ok(()) => {
                    e.extras.push(payload);
                    with_model(|m| *m.extra_holders.entry(payload).or_insert(0) += 1);
                }
                Err(err) => viol::record("registration-failed", format!("Runtime::add of function {name}: {err}")),
            }
            back_rt(*r, e);
            true
        }
        LifeOp::IntoFunc { h } => {
            let Some(e) = with_pools(|p| p.hds[*h].take()) else { return false };
            let m = e.m;
            match e.f {
                Hf::F(f) => {
                    // the closure replaces the handle as a holder of the module (no model change)
                    let c: Box<dyn Fn(u64) -> u64> = Box::new(f.0.into_func());
                    back_hd(*h, HdEnt { m, f: Hf::C(Sendable(c)) });
                    true
                }
                other => {
                    back_hd(*h, HdEnt { m, f: other });
                    false
                }
            }
        }
    }
}

// ------------------------------------------------------------------ generation

#[derive(Default, Clone)]
struct Sym {
    rts: Vec<Option<u64>>,
    pks: Vec<Option<u64>>,
    hds: Vec<Option<u64>>,
    next_rid: u64,
    next_m: u64,
    next_aid: u64,
}

fn gen_op(r: &mut Rng, s: &mut Sym, weights: &[u32; 13]) -> Option<LifeOp> {
    let full = |v: &Vec<Option<u64>>| -> Vec<usize> { (0..v.len()).filter(|&i| v[i].is_some()).collect() };
    let empty_or_any = |r: &mut Rng, v: &Vec<Option<u64>>| -> usize {
        let e: Vec<usize> = (0..v.len()).filter(|&i| v[i].is_none()).collect();
        if !e.is_empty() && r.chance(4, 5) { *r.pick(&e) } else { r.below(v.len() as u64) as usize }
    };
    for _ in 0..12 {
        let kind = r.weighted(weights);
        let (rts, pks, hds) = (full(&s.rts), full(&s.pks), full(&s.hds));
        match kind {
            0 => {
                let slot = empty_or_any(r, &s.rts);
                let rid = s.next_rid;
                s.next_rid += 1;
                s.rts[slot] = Some(rid);
                return Some(LifeOp::NewRuntime { r: slot, rid });
            }
            1 if !rts.is_empty() => {
                let src = *r.pick(&rts);
                let dst = empty_or_any(r, &s.rts);
                if dst == src {
                    continue;
                }
                s.rts[dst] = s.rts[src];
                return Some(LifeOp::CloneRuntime { src, dst });
            }
            2 if !rts.is_empty() => {
                let slot = *r.pick(&rts);
                s.rts[slot] = None;
                return Some(LifeOp::DropRuntime { r: slot });
            }
            3 if !rts.is_empty() => {
                let slot = *r.pick(&rts);
                let p = empty_or_any(r, &s.pks);
                let m = s.next_m;
                s.next_m += 1;
                s.pks[p] = Some(m);
                return Some(LifeOp::Compile { r: slot, p, m, k: 1 + r.below(6) });
            }
            4 if !rts.is_empty() => {
                let slot = *r.pick(&rts);
                let m = s.next_m;
                s.next_m += 1;
                return Some(LifeOp::CompileBroken { r: slot, m, k: 1 + r.below(6) });
            }
            5 if !pks.is_empty() => {
                let p = *r.pick(&pks);
                let h = empty_or_any(r, &s.hds);
                s.hds[h] = s.pks[p];
                return Some(LifeOp::GetHandle { p, h, which: r.weighted(&[46, 16, 16, 10, 12]) as u8 });
            }
            6 if !hds.is_empty() => {
                let src = *r.pick(&hds);
                let dst = empty_or_any(r, &s.hds);
                if dst == src {
                    continue;
                }
                s.hds[dst] = s.hds[src];
                return Some(LifeOp::CloneHandle { src, dst });
            }
            7 if !hds.is_empty() => {
                return Some(LifeOp::Call { h: *r.pick(&hds), x: r.below(1000) });
            }
            8 if !hds.is_empty() => {
                let h = *r.pick(&hds);
                s.hds[h] = None;
                return Some(LifeOp::DropHandle { h });
            }
            9 if !pks.is_empty() => {
                let p = *r.pick(&pks);
                s.pks[p] = None;
                return Some(LifeOp::DropPackage { p });
            }
            10 if !hds.is_empty() => {
                return Some(LifeOp::IntoFunc { h: *r.pick(&hds) });
            }
            11 if !rts.is_empty() => {
                s.next_aid += 1;
                return Some(LifeOp::AddConstant { r: *r.pick(&rts), aid: s.next_aid });
            }
            12 if !rts.is_empty() => {
                s.next_aid += 1;
                return Some(LifeOp::AddFunction { r: *r.pick(&rts), aid: s.next_aid });
            }
            _ => {}
        }
    }
    None
}

/// Sub-scenario "owner-race": several owners of one module and one runtime exist; two threads
/// clone/drop owners at the same time, and the first operation of thread 0 is preempted after
/// exactly k instructions (k drawn uniformly: successive runs sweep the instruction positions).
pub fn generate_owner_race(run_seed: u64) -> LifeDesc {
    let mut r = Rng::new(rng::derive(run_seed, &[rng::label("owner-race")]));
    let k_ver = 1 + r.below(5);
    let mut setup = vec![
        LifeOp::NewRuntime { r: 0, rid: 0 },
        LifeOp::Compile { r: 0, p: 0, m: 0, k: k_ver },
        LifeOp::GetHandle { p: 0, h: 0, which: 0 },
        LifeOp::CloneHandle { src: 0, dst: 1 },
        LifeOp::CloneRuntime { src: 0, dst: 1 },
    ];
    // which owners remain: sometimes exactly two handles are the last owners of everything
    let mut alive_rts = vec![0usize, 1];
    let mut pkg_alive = true;
    if r.chance(2, 3) {
        setup.push(LifeOp::DropPackage { p: 0 });
        pkg_alive = false;
    }
    if r.chance(1, 2) {
        setup.push(LifeOp::DropRuntime { r: 1 });
        alive_rts.retain(|&x| x != 1);
        if r.chance(1, 2) {
            setup.push(LifeOp::DropRuntime { r: 0 });
            alive_rts.clear();
        }
    }
    let mut pick = |r: &mut Rng, t: usize| -> LifeOp {
        // thread t prefers "its" handle t
        match r.weighted(&[55, 10, if alive_rts.is_empty() { 0 } else { 15 }, if alive_rts.is_empty() { 0 } else { 12 }, if pkg_alive { 8 } else { 0 }]) {
            0 => LifeOp::DropHandle { h: t },
            1 => LifeOp::CloneHandle { src: t, dst: 2 + t },
            2 => LifeOp::DropRuntime { r: *r.pick(&alive_rts) },
            3 => LifeOp::CloneRuntime { src: *r.pick(&alive_rts), dst: 2 },
            _ => LifeOp::DropPackage { p: 0 },
        }
    };
    let mut threads = Vec::new();
    for t in 0..2 {
        let n = 1 + r.below(2) as usize;
        threads.push((0..n).map(|_| pick(&mut r, t)).collect::<Vec<_>>());
    }
    // Where two owners race, the window is at the start of a drop (before the reference count is
    // decremented): half of the runs sweep the first 120 instructions, a quarter the first 1400,
    // a quarter anything up to 8191 (the teardown of the module against the other thread).
    let k = match r.below(4) {
        0 | 1 => 1 + r.below(120),
        2 => 1 + r.below(1400),
        _ => {
            let bits = r.below(13);
            (1u64 << bits) + r.below(1u64 << bits)
        }
    };
    let fine = Some((0usize, 0usize, k));
    unwind_some(run_seed, &mut setup, &mut threads);
    LifeDesc {
        property: "C11".into(),
        scenario: "owner-race".into(),
        run_seed,
        strategy: "sticky95".into(),
        sched_seed: rng::derive(run_seed, &[rng::label("schedule")]),
        setup,
        threads,
        teardown_seed: rng::derive(run_seed, &[rng::label("teardown")]),
        fine,
        fine_atomic: if rng::derive(run_seed, &[rng::label("fine-atomic")]) % 2 == 0 { Some(1 + rng::derive(run_seed, &[rng::label("fine-atomic-j")]) % 8) } else { None },
        page_reuse: None,
        schedule: None,
    }
}

/// Sub-scenario "reload-loop" (hot reload, the title of the property): one runtime, three to six
/// generations of the script compiled one after the other, each called and then released before
/// (or, sometimes, just after) the next one is compiled, with the allocator handing freed JIT
/// blocks out again in the same role - anything that remembers an *address* of machine code or
/// of its data (a cache of literals, of entry points, of constant slots) meets it again with
/// other contents behind it.
pub fn generate_reload_loop(run_seed: u64) -> LifeDesc {
    let mut r = Rng::new(rng::derive(run_seed, &[rng::label("reload-loop")]));
    let mut setup = vec![LifeOp::NewRuntime { r: 0, rid: 0 }];
    let n = 3 + r.below(4);
    let mut k = 1 + r.below(5);
    for i in 0..n {
        // the old generation goes away before the new one is compiled - or right after
        let late_drop = i > 0 && r.chance(1, 4);
        if i > 0 && !late_drop {
            setup.push(LifeOp::DropHandle { h: 0 });
            setup.push(LifeOp::DropHandle { h: 1 });
        }
        setup.push(LifeOp::Compile { r: 0, p: (i % 2) as usize, m: i, k });
        if late_drop {
            setup.push(LifeOp::DropHandle { h: 0 });
            setup.push(LifeOp::DropHandle { h: 1 });
        }
        let p = (i % 2) as usize;
        setup.push(LifeOp::GetHandle { p, h: 0, which: *r.pick(&[0u8, 1, 4]) });
        setup.push(LifeOp::GetHandle { p, h: 1, which: *r.pick(&[0u8, 1, 4, 2]) });
        setup.push(LifeOp::DropPackage { p });
        setup.push(LifeOp::Call { h: 0, x: r.below(1000) });
        setup.push(LifeOp::Call { h: 1, x: r.below(1000) });
        // another version next time (same length of every literal: versions are one digit)
        k = 1 + (k + r.below(4)) % 5;
    }
    let threads = vec![vec![LifeOp::Call { h: 0, x: r.below(1000) }, LifeOp::DropHandle { h: 0 }, LifeOp::Call { h: 1, x: r.below(1000) }]];
    LifeDesc {
        property: "C11".into(),
        scenario: "reload-loop".into(),
        run_seed,
        strategy: "sticky95".into(),
        sched_seed: rng::derive(run_seed, &[rng::label("schedule")]),
        setup,
        threads,
        teardown_seed: rng::derive(run_seed, &[rng::label("teardown")]),
        fine: None,
        fine_atomic: None,
        page_reuse: Some((true, r.chance(2, 3))),
        schedule: None,
    }
}

/// Fault kind "the owner dies in a panic": in one run of three, each explicit drop is, one time
/// in two, carried out by the unwinding of a panic instead of a plain `drop`.
fn unwind_some(run_seed: u64, setup: &mut [LifeOp], threads: &mut [Vec<LifeOp>]) {
    let mut ur = Rng::new(rng::derive(run_seed, &[rng::label("unwind")]));
    if !ur.chance(1, 3) {
        return;
    }
    for op in setup.iter_mut().chain(threads.iter_mut().flatten()) {
        let conv = match op {
            LifeOp::DropHandle { h } => Some((0u8, *h)),
            LifeOp::DropPackage { p } => Some((1, *p)),
            LifeOp::DropRuntime { r } => Some((2, *r)),
            _ => None,
        };
        if let Some((what, slot)) = conv {
            if ur.chance(1, 2) {
                *op = LifeOp::DropUnwinding { what, slot };
            }
        }
    }
}

pub fn generate(run_seed: u64, thorough: bool) -> LifeDesc {
    let mut r = Rng::new(rng::derive(run_seed, &[rng::label("workload")]));
    let mut s = Sym { rts: vec![None; N_RT], pks: vec![None; N_PK], hds: vec![None; N_HD], next_rid: 0, next_m: 0, next_aid: 0 };
    // phase 1: sequential setup on the main thread
    let mut setup = Vec::new();
    let w_setup: [u32; 13] = [12, 8, 6, 22, 4, 24, 8, 8, 4, 4, 3, 6, 6];
    let n_setup = 3 + r.below(if thorough { 10 } else { 7 });
    // always start with a runtime
    setup.push(gen_op(&mut r, &mut s, &[1, 0, 0, 0, 0, 0, 0, 0, 0, 0, 0, 0, 0]).unwrap());
    // one history in six starts with two clones of that runtime that diverge: each gets its own
    // additions (often under the same names), then scripts are compiled from both
    if r.chance(1, 6) {
        let src = s.rts.iter().position(|x| x.is_some()).unwrap();
        let dst = (src + 1) % N_RT;
        s.rts[dst] = s.rts[src];
        setup.push(LifeOp::CloneRuntime { src, dst });
        for slot in [src, dst] {
            for _ in 0..1 + r.below(2) {
                s.next_aid += 1;
                if r.chance(2, 3) {
                    setup.push(LifeOp::AddFunction { r: slot, aid: s.next_aid });
                } else {
                    setup.push(LifeOp::AddConstant { r: slot, aid: s.next_aid });
                }
            }
        }
        let kv = 1 + r.below(6);
        for (i, slot) in [src, dst].into_iter().enumerate() {
            let m = s.next_m;
            s.next_m += 1;
            s.pks[i] = Some(m);
            // the same version (so the same text when the additions have the same names) or another one
            let k = if r.chance(1, 2) { kv } else { 1 + r.below(6) };
            setup.push(LifeOp::Compile { r: slot, p: i, m, k });
            s.hds[i] = Some(m);
            setup.push(LifeOp::GetHandle { p: i, h: i, which: 0 });
            setup.push(LifeOp::Call { h: i, x: r.below(1000) });
        }
    }
    for _ in 0..n_setup {
        if let Some(op) = gen_op(&mut r, &mut s, &w_setup) {
            setup.push(op);
        }
    }
    // phase 2: a random merge of operations over 1-3 threads
    let nthreads = 1 + r.weighted(&[10, 55, 35]);
    let per = if thorough { 3 + r.below(10) } else { 2 + r.below(6) } as usize;
    let w: [u32; 13] = [3, 5, 8, 13, 4, 12, 8, 30, 12, 8, 4, 5, 5];
    let mut threads: Vec<Vec<LifeOp>> = vec![Vec::new(); nthreads];
    for _ in 0..per * nthreads {
        let t = r.below(nthreads as u64) as usize;
        if let Some(op) = gen_op(&mut r, &mut s, &w) {
            threads[t].push(op);
        }
    }
    // completion: most of what is left is dropped by seeded threads in seeded order
    let mut rest: Vec<LifeOp> = Vec::new();
    for i in 0..N_RT {
        if s.rts[i].is_some() {
            rest.push(LifeOp::DropRuntime { r: i });
        }
    }
    for i in 0..N_PK {
        if s.pks[i].is_some() {
            rest.push(LifeOp::DropPackage { p: i });
        }
    }
    for i in 0..N_HD {
        if s.hds[i].is_some() {
            rest.push(LifeOp::DropHandle { h: i });
        }
    }
    for i in (1..rest.len()).rev() {
        let j = r.below(i as u64 + 1) as usize;
        rest.swap(i, j);
    }
    for op in rest {
        if r.chance(4, 5) {
            let t = r.below(nthreads as u64) as usize;
            threads[t].push(op);
        }
    }
    let mut sr = Rng::new(rng::derive(run_seed, &[rng::label("strategy")]));
    let strategy = crate::scen_list::pick_strategy_compiling(&mut sr, 4000);
    // one run in three: one clone/drop/call operation gets an instruction-level preemption
    let mut fr = Rng::new(rng::derive(run_seed, &[rng::label("fine")]));
    let mut fine = None;
    if nthreads > 1 && fr.chance(1, 3) {
        let cands: Vec<(usize, usize)> = threads
            .iter()
            .enumerate()
            .flat_map(|(t, ops)| ops.iter().enumerate().filter(|(_, o)| matches!(o, LifeOp::DropHandle { .. } | LifeOp::DropPackage { .. } | LifeOp::DropRuntime { .. } | LifeOp::CloneHandle { .. } | LifeOp::CloneRuntime { .. } | LifeOp::Call { .. })).map(move |(i, _)| (t, i)))
            .collect();
        if !cands.is_empty() {
            let (t, i) = *fr.pick(&cands);
            // log-uniform in 1..=4096
            let bits = fr.below(13);
            let k = (1u64 << bits) + fr.below(1u64 << bits);
            fine = Some((t, i, k));
        }
    }
    unwind_some(run_seed, &mut setup, &mut threads);
    LifeDesc {
        property: "C11".into(),
        scenario: "lifecycle".into(),
        run_seed,
        strategy: strategy.name(),
        sched_seed: rng::derive(run_seed, &[rng::label("schedule")]),
        setup,
        threads,
        teardown_seed: rng::derive(run_seed, &[rng::label("teardown")]),
        fine,
        fine_atomic: if rng::derive(run_seed, &[rng::label("fine-atomic")]) % 3 == 0 { Some(1 + rng::derive(run_seed, &[rng::label("fine-atomic-j")]) % 12) } else { None },
        page_reuse: None,
        schedule: None,
    }
}

// ------------------------------------------------------------------ execution

pub fn execute(d: &LifeDesc, keep_trace: bool) -> RunResult {
    let _mg = alloc::ModeGuard::new(alloc::MODE_PLAIN);
    tracked::reset();
    *POOLS.lock().unwrap() = Some(Pools {
        rts: (0..N_RT).map(|_| None).collect(),
        pks: (0..N_PK).map(|_| None).collect(),
        hds: (0..N_HD).map(|_| None).collect(),
    });
    *MODEL.lock().unwrap() = Some(Model::default());
    MK_CALLS.lock().unwrap().clear();
    COMPILES.lock().unwrap().clear();
    KEPT_STR.lock().unwrap().clear();
    KEPT_OBJ.lock().unwrap().clear();
    for a in [&P_COMPILE_OVERLAP, &P_DROP_DURING_CALL, &P_LAST_HOLDER_FOREIGN, &P_UNWIND_DROPS, &P_UNWIND_LAST, &P_CALL_AFTER_PKG_AND_RT_GONE, &P_CALL_AFTER_FAILED_RELOAD, &P_SKIPPED, &P_EXECUTED, &P_CHECKS, &P_PAGES_UNOBSERVABLE, &FAILED_RELOADS] {
        a.store(0, SeqCst);
    }
    IN_CALL.store(0, SeqCst);
    IN_COMPILE.store(0, SeqCst);
    // swarm knob: in one run of three freed JIT pages are handed out again instead of quarantined
    let page_reuse = d.page_reuse.map(|x| x.0).unwrap_or(crate::rng::derive(d.run_seed, &[crate::rng::label("page-reuse")]) % 3 == 0);
    alloc::PAGE_REUSE.store(page_reuse, SeqCst);
    // ... and in half of those a module of the same shape gets every block back in the same role
    alloc::PAGE_REUSE_SAME_ROLE.store(d.page_reuse.map(|x| x.1).unwrap_or(crate::rng::derive(d.run_seed, &[crate::rng::label("page-reuse")]) % 6 == 0), SeqCst);
    let mut res = RunResult::default();

    // phase 1 on the main thread (code under test allocates in RUN mode)
    {
        let _rg = alloc::ModeGuard::new(alloc::MODE_RUN);
        for op in &d.setup {
            exec(op);
            if viol::any() {
                break;
            }
        }
    }
    // phase 2 under the simulator
    let mut out = sched::SimOutcome::default();
    let single = !objects_may_cross_threads();
    if !viol::any() && single {
        // runtimes/packages/handles are not Send + Sync in this tree: no object may cross
        // threads, so the history is executed sequentially where it was built (this thread)
        let _rg = alloc::ModeGuard::new(alloc::MODE_RUN);
        let n = d.threads.iter().map(|t| t.len()).max().unwrap_or(0);
        'seq: for i in 0..n {
            for t in &d.threads {
                if let Some(op) = t.get(i) {
                    exec(op);
                    if viol::any() {
                        break 'seq;
                    }
                }
            }
        }
    }
    if !viol::any() && !single {
        let fine = d.fine;
        let fine_atomic = d.fine_atomic;
        let bodies: Vec<sched::Body> = d
            .threads
            .iter()
            .enumerate()
            .map(|(t, ops)| {
                let ops = ops.clone();
                Box::new(move || {
                    for (i, op) in ops.iter().enumerate() {
                        match fine {
                            Some((ft, fi, k)) if ft == t && fi == i => match fine_atomic {
                                Some(j) => sched::fine_window_atomic(j, || exec(op)),
                                None => sched::fine_window(k, || exec(op)),
                            },
                            _ => exec(op),
                        }
                        if viol::any() {
                            break;
                        }
                    }
                    let _pg = alloc::ModeGuard::new(alloc::MODE_PLAIN);
                    sched::set_label("thread-exit");
                }) as sched::Body
            })
            .collect();
        out = sched::run_sim(
            SimCfg {
                seed: d.sched_seed,
                strategy: Strategy::parse(&d.strategy).unwrap_or(Strategy::Uniform),
                replay: d.schedule.clone(),
                step_cap: 3_000_000,
                keep_trace,
            },
            bodies,
        );
    }
    // phase 3: whatever is left is dropped here, in a seeded order
    {
        let _rg = alloc::ModeGuard::new(alloc::MODE_RUN);
        let mut tr = Rng::new(d.teardown_seed);
        let mut rest: Vec<LifeOp> = Vec::new();
        with_pools(|p| {
            for i in 0..N_RT {
                if p.rts[i].is_some() {
                    rest.push(LifeOp::DropRuntime { r: i });
                }
            }
            for i in 0..N_PK {
                if p.pks[i].is_some() {
                    rest.push(LifeOp::DropPackage { p: i });
                }
            }
            for i in 0..N_HD {
                if p.hds[i].is_some() {
                    rest.push(LifeOp::DropHandle { h: i });
                }
            }
        });
        for i in (1..rest.len()).rev() {
            let j = tr.below(i as u64 + 1) as usize;
            rest.swap(i, j);
        }
        if !viol::any() {
            for op in &rest {
                exec(op);
            }
        }
    }
    // values returned by calls outlive every module: they must still be intact now
    if !viol::any() {
        let kept_s = std::mem::take(&mut *KEPT_STR.lock().unwrap());
        for (v, want) in &kept_s {
            let s: &str = v.0.as_ref();
            if s != want {
                viol::record("returned-value-corrupted", format!("a string returned by a call reads {:?} after its module was released, expected {want:?}", s.chars().take(40).collect::<String>()));
                break;
            }
        }
        let kept_o = std::mem::take(&mut *KEPT_OBJ.lock().unwrap());
        for (v, want) in &kept_o {
            if v.0.0.checked_payload() != Ok(*want) {
                viol::record("returned-value-corrupted", format!("a tracked value returned by a call is {:?} after its module was released, expected payload {want}", v.0.0.checked_payload()));
                break;
            }
        }
        let _rg = alloc::ModeGuard::new(alloc::MODE_RUN);
        drop(kept_s);
        drop(kept_o);
    }
    // oracle 3: exactly once, after
    if !viol::any() {
        let live = tracked::live_by_payload();
        if !live.is_empty() {
            viol::record("leak", format!("after every runtime, package and handle was dropped these tracked values (payload -> count) are still alive: {live:?}"));
        }
        if tracked::zst_live() != 0 {
            viol::record("leak", format!("zero-sized script constants: live count {} after every owner was dropped", tracked::zst_live()));
        }
        if tracked::zguard_live() != 0 {
            viol::record("leak", format!("zero-sized state captured by registered closures: live count {} after every owner was dropped", tracked::zguard_live()));
        }
        let mods: Vec<u64> = with_model(|m| m.mods.keys().copied().collect());
        for m in mods {
            let (pl, pf) = alloc::module_pages(m as u32);
            if pl != 0 {
                viol::record("pages-not-released", format!("machine code of module m{m}: {pl} page block(s) still allocated, {pf} freed, after its last holder was dropped"));
                break;
            }
        }
        // side invariant (C14): every constant initialiser ran exactly once per compilation
        let mk = MK_CALLS.lock().unwrap().clone();
        let compiles = COMPILES.lock().unwrap().clone();
        for (p, n) in &mk {
            // mk(10000 + 10k + j) is the initialiser of a constant of version k
            let k = (p - 10_000) / 10;
            let want = compiles.get(&k).copied().unwrap_or(0);
            if *p >= 10_000 && *n != want {
                viol::record("constant-initialiser-multiplicity", format!("mk({p}) was called {n} times for {want} successful compilation(s) of version {k}"));
                break;
            }
        }
    }
    let _ = alloc::end_run_check();
    *POOLS.lock().unwrap() = None;
    res.violations = viol::take();
    res.steps = out.steps;
    res.trace_hash = out.trace_hash;
    res.sig_hash = out.sig_hash;
    res.preemptions = out.preemptions;
    res.decisions = out.decisions.clone();
    let c = &mut res.counters;
    c.insert("runs".into(), 1);
    c.insert("knob_page_reuse_runs".into(), page_reuse as u64);
    c.insert("pages_reused".into(), alloc::ST_PAGE_REUSED.load(std::sync::atomic::Ordering::Relaxed));
    c.insert("steps".into(), out.steps);
    c.insert("switches".into(), out.switches);
    c.insert("preemptions".into(), out.preemptions);
    c.insert("preempt_after_release".into(), out.preempt_after_rel);
    c.insert("lock_contended".into(), out.contended);
    c.insert(format!("strategy_{}", d.strategy.split('/').next().unwrap_or("")), 1);
    c.insert("ops".into(), (d.setup.len() + d.threads.iter().map(|t| t.len()).sum::<usize>()) as u64);
    c.insert("ops_executed".into(), P_EXECUTED.load(SeqCst));
    c.insert(format!("scenario_{}", d.scenario), 1);
    c.insert("fine_window_configured".into(), d.fine.is_some() as u64);
    c.insert("fine_window_preemptions_fired".into(), sched::FINE_FIRED.load(SeqCst));
    c.insert("fine_window_instructions_stepped".into(), sched::FINE_STEPS.load(SeqCst));
    if single {
        c.insert("degraded_to_single_thread_objects_not_send_sync".into(), 1);
    }
    c.insert("ops_skipped_slot_empty".into(), P_SKIPPED.load(SeqCst));
    c.insert("not_before_checks".into(), P_CHECKS.load(SeqCst));
    c.insert("not_before_checks_module_pages_unobservable".into(), P_PAGES_UNOBSERVABLE.load(SeqCst));
    c.insert("probe_compile_overlapped_another_compile".into(), P_COMPILE_OVERLAP.load(SeqCst));
    c.insert("probe_drop_while_other_thread_mid_call".into(), P_DROP_DURING_CALL.load(SeqCst));
    c.insert("probe_last_holder_dropped_on_foreign_thread".into(), P_LAST_HOLDER_FOREIGN.load(SeqCst));
    c.insert("probe_call_after_package_and_runtime_gone".into(), P_CALL_AFTER_PKG_AND_RT_GONE.load(SeqCst));
    c.insert("probe_old_handle_called_after_failed_reload".into(), P_CALL_AFTER_FAILED_RELOAD.load(SeqCst));
    c.insert("fault_failed_reload".into(), FAILED_RELOADS.load(SeqCst));
    c.insert("fault_owner_dropped_by_unwinding".into(), P_UNWIND_DROPS.load(SeqCst));
    c.insert("probe_last_holder_dropped_by_unwinding".into(), P_UNWIND_LAST.load(SeqCst));
    for op in d.setup.iter().chain(d.threads.iter().flatten()) {
        *c.entry(format!("op_{}", label(op))).or_insert(0) += 1;
    }
    for (s, n) in &out.sites {
        c.insert(format!("site_{s}"), *n);
    }
    use std::sync::atomic::Ordering::Relaxed;
    c.insert("page_blocks_allocated".into(), alloc::ST_PAGE_ALLOCS.load(Relaxed));
    c.insert("page_blocks_freed".into(), alloc::ST_PAGE_FREES.load(Relaxed));
    c.insert("quarantined_blocks".into(), alloc::ST_QUAR_BLOCKS.load(Relaxed));
    if keep_trace {
        res.trace = out.trace.iter().map(|(t, k, o)| format!("t{t} {} {o}", crate::scen_list::kind_name(*k))).collect();
    }
    res
}

// ------------------------------------------------------------------ minimisation

pub fn shrink(d: &LifeDesc) -> Vec<LifeDesc> {
    let mut out = Vec::new();
    let sched = d.schedule.clone().unwrap_or_default();
    if d.threads.len() > 1 {
        for t in 0..d.threads.len() {
            let mut c = d.clone();
            c.threads.remove(t);
            let s: Vec<u8> = sched.iter().filter(|&&x| x as usize != t).map(|&x| if x as usize > t { x - 1 } else { x }).collect();
            c.schedule = Some(s);
            out.push(c);
        }
    }
    for t in 0..d.threads.len() {
        let n = d.threads[t].len();
        if n > 3 {
            let mut c = d.clone();
            c.threads[t].truncate(n / 2);
            out.push(c);
        }
        for k in (0..n).rev() {
            let mut c = d.clone();
            c.threads[t].remove(k);
            out.push(c);
        }
    }
    for k in (1..d.setup.len()).rev() {
        let mut c = d.clone();
        c.setup.remove(k);
        out.push(c);
    }
    // a release by unwinding becomes a plain drop
    let plain = |op: &LifeOp| match op {
        LifeOp::DropUnwinding { what: 0, slot } => Some(LifeOp::DropHandle { h: *slot }),
        LifeOp::DropUnwinding { what: 1, slot } => Some(LifeOp::DropPackage { p: *slot }),
        LifeOp::DropUnwinding { slot, .. } => Some(LifeOp::DropRuntime { r: *slot }),
        _ => None,
    };
    for t in 0..d.threads.len() {
        for k in 0..d.threads[t].len() {
            if let Some(op) = plain(&d.threads[t][k]) {
                let mut c = d.clone();
                c.threads[t][k] = op;
                out.push(c);
            }
        }
    }
    for k in 0..d.setup.len() {
        if let Some(op) = plain(&d.setup[k]) {
            let mut c = d.clone();
            c.setup[k] = op;
            out.push(c);
        }
    }
    // move the last setup operation... keep simple: schedule simplifications
    if !sched.is_empty() {
        let mut c = d.clone();
        c.schedule = Some(sched[..sched.len() / 2].to_vec());
        out.push(c);
        let mut c = d.clone();
        c.schedule = Some(vec![]);
        out.push(c);
        // fewer context switches: replace a switching decision by "stay"
        let mut switches: Vec<usize> = (1..sched.len()).filter(|&i| sched[i] != sched[i - 1]).collect();
        switches.truncate(200);
        for i in switches {
            let mut c = d.clone();
            let mut s = sched.clone();
            s[i] = s[i - 1];
            c.schedule = Some(s);
            out.push(c);
        }
    }
    out
}

//! Executing list operations against the *real* `roto::List`, through the Rust
//! API or through compiled helper scripts, for every element type, and turning
//! what they return into model observations.

use crate::model::{MVal, Obs, Op, Origin};
use crate::tracked::{Big, T24, Zst};
use crate::{alloc, viol};
use roto::{FileTree, List, NoCtx, Package, RotoString, Runtime, TypedFunc, Val, Value, library};
use serde::{Deserialize, Serialize};
use std::panic::{AssertUnwindSafe, catch_unwind};
use std::sync::Arc;

#[derive(Clone, Copy, Debug, PartialEq, Eq, Serialize, Deserialize)]
pub enum ElemKind {
    U8,
    U64,
    Str,
    T24,
    Zst,
    Nested,
    Big,
    F64,
    U32,
    OptU64,
    OptStr,
    UnitTy,
}

impl ElemKind {
    pub const ALL: [ElemKind; 12] = [ElemKind::U8, ElemKind::U64, ElemKind::Str, ElemKind::T24, ElemKind::Zst, ElemKind::Nested, ElemKind::Big, ElemKind::F64, ElemKind::U32, ElemKind::OptU64, ElemKind::OptStr, ElemKind::UnitTy];
    pub fn tyname(self) -> &'static str {
        match self {
            ElemKind::U8 => "u8",
            ElemKind::U64 => "u64",
            ElemKind::Str => "String",
            ElemKind::T24 => "T24",
            ElemKind::Zst => "Zst",
            ElemKind::Nested => "List[u64]",
            ElemKind::Big => "Big",
            ElemKind::F64 => "f64",
            ElemKind::U32 => "u32",
            ElemKind::OptU64 => "u64?",
            ElemKind::OptStr => "String?",
            ElemKind::UnitTy => "()",
        }
    }
    /// Source text and model value of three literals of this element type (`None`: the type has
    /// no literal syntax). Used by the `looplit` helper.
    pub fn literals(self) -> Option<[(&'static str, crate::model::MVal); 3]> {
        use crate::model::MVal;
        Some(match self {
            ElemKind::U8 | ElemKind::U32 | ElemKind::U64 => [("1", MVal::Int(1)), ("2", MVal::Int(2)), ("3", MVal::Int(3))],
            ElemKind::Str => [("\"la\"", MVal::Str("la".into())), ("\"lb\"", MVal::Str("lb".into())), ("\"lc\"", MVal::Str("lc".into()))],
            ElemKind::F64 => [("1.5", MVal::F(1.5f64.to_bits())), ("2.5", MVal::F(2.5f64.to_bits())), ("3.5", MVal::F(3.5f64.to_bits()))],
            _ => return None,
        })
    }
    pub fn suffix(self) -> &'static str {
        match self {
            ElemKind::U8 => "u8",
            ElemKind::U64 => "u64",
            ElemKind::Str => "str",
            ElemKind::T24 => "t24",
            ElemKind::Zst => "zst",
            ElemKind::Nested => "nest",
            ElemKind::Big => "big",
            ElemKind::F64 => "f64",
            ElemKind::U32 => "u32",
            ElemKind::OptU64 => "optu64",
            ElemKind::OptStr => "optstr",
            ElemKind::UnitTy => "unit",
        }
    }
}

/// Registry of inner lists for the nested element type: model id -> handle
#[derive(Default, Clone)]
pub struct Inner {
    pub lists: Vec<(usize, List<u64>)>,
    /// contents of nested lists observed by the last operation: (model id, contents)
    pub seen: Vec<(usize, Vec<u64>)>,
    /// identity tag (first element) of every inner list: (model id, tag); twins share a tag
    pub tags: Vec<(usize, u64)>,
}

pub const INNER_TAG: u64 = 0x7A6_0000;

pub trait Elem: Value + Clone + Send + Sync + 'static
where
    Self::Transformed: PartialEq,
{
    const KIND: ElemKind;
    fn from_m(v: &MVal, inner: &Inner) -> Self;
    /// Err = the bytes are not a value this run ever produced (stale / corrupted)
    fn to_m(&self, inner: &mut Inner) -> Result<MVal, String>;
    fn debug(&self) -> String;
}

impl Elem for u64 {
    const KIND: ElemKind = ElemKind::U64;
    fn from_m(v: &MVal, _: &Inner) -> Self {
        match v {
            MVal::Int(x) => *x,
            _ => 0,
        }
    }
    fn to_m(&self, _: &mut Inner) -> Result<MVal, String> {
        if alloc::is_poison_u64(*self) {
            let what = if *self == 0xDDDD_DDDD_DDDD_DDDD { "freed-memory poison" } else { "never-written-memory pattern" };
            return Err(format!("u64 element {:#x} is the {what}", *self));
        }
        Ok(MVal::Int(*self))
    }
    fn debug(&self) -> String {
        format!("{self}")
    }
}

impl Elem for u32 {
    const KIND: ElemKind = ElemKind::U32;
    fn from_m(v: &MVal, _: &Inner) -> Self {
        match v {
            MVal::Int(x) => *x as u32,
            _ => 0,
        }
    }
    fn to_m(&self, _: &mut Inner) -> Result<MVal, String> {
        if *self == 0xDDDD_DDDD || *self == 0xCDCD_CDCD {
            return Err(format!("u32 element {:#x} is a poison word", *self));
        }
        Ok(MVal::Int(*self as u64))
    }
    fn debug(&self) -> String {
        format!("{self}")
    }
}

impl Elem for Option<u64> {
    const KIND: ElemKind = ElemKind::OptU64;
    fn from_m(v: &MVal, _: &Inner) -> Self {
        match v {
            MVal::OptInt(o) => *o,
            _ => None,
        }
    }
    fn to_m(&self, _: &mut Inner) -> Result<MVal, String> {
        if let Some(x) = self {
            if alloc::is_poison_u64(*x) {
                return Err(format!("u64? element Some({x:#x}) is a poison word"));
            }
        }
        Ok(MVal::OptInt(*self))
    }
    fn debug(&self) -> String {
        format!("{self:?}")
    }
}

impl Elem for Option<RotoString> {
    const KIND: ElemKind = ElemKind::OptStr;
    fn from_m(v: &MVal, _: &Inner) -> Self {
        match v {
            MVal::OptStr(o) => o.as_ref().map(|s| RotoString::from(s.as_str())),
            _ => None,
        }
    }
    fn to_m(&self, _: &mut Inner) -> Result<MVal, String> {
        match self {
            None => Ok(MVal::OptStr(None)),
            Some(r) => {
                let s: &str = r.as_ref();
                if s.bytes().any(|b| b == alloc::POISON_FREED || b == alloc::POISON_FRESH) {
                    return Err("String? element contains poison bytes".to_string());
                }
                Ok(MVal::OptStr(Some(s.to_string())))
            }
        }
    }
    fn debug(&self) -> String {
        format!("{self:?}")
    }
}

impl Elem for () {
    const KIND: ElemKind = ElemKind::UnitTy;
    fn from_m(_: &MVal, _: &Inner) -> Self {}
    fn to_m(&self, _: &mut Inner) -> Result<MVal, String> {
        Ok(MVal::Unit)
    }
    fn debug(&self) -> String {
        "()".into()
    }
}

impl Elem for f64 {
    const KIND: ElemKind = ElemKind::F64;
    fn from_m(v: &MVal, _: &Inner) -> Self {
        match v {
            MVal::F(b) => f64::from_bits(*b),
            _ => 0.0,
        }
    }
    fn to_m(&self, _: &mut Inner) -> Result<MVal, String> {
        if alloc::is_poison_u64(self.to_bits()) {
            return Err(format!("f64 element with bit pattern {:#x} is a poison word", self.to_bits()));
        }
        Ok(MVal::F(self.to_bits()))
    }
    fn debug(&self) -> String {
        format!("{self:?}")
    }
}

impl Elem for u8 {
    const KIND: ElemKind = ElemKind::U8;
    fn from_m(v: &MVal, _: &Inner) -> Self {
        match v {
            MVal::Int(x) => *x as u8,
            _ => 0,
        }
    }
    fn to_m(&self, _: &mut Inner) -> Result<MVal, String> {
        if *self == alloc::POISON_FREED || *self == alloc::POISON_FRESH {
            return Err(format!("u8 element {:#x} is a poison byte (values in this run are < 0xCD)", *self));
        }
        Ok(MVal::Int(*self as u64))
    }
    fn debug(&self) -> String {
        format!("{self}")
    }
}

impl Elem for RotoString {
    const KIND: ElemKind = ElemKind::Str;
    fn from_m(v: &MVal, _: &Inner) -> Self {
        match v {
            MVal::Str(s) => RotoString::from(s.as_str()),
            _ => RotoString::from(""),
        }
    }
    fn to_m(&self, _: &mut Inner) -> Result<MVal, String> {
        let s: &str = self.as_ref();
        if s.bytes().any(|b| b == alloc::POISON_FREED || b == alloc::POISON_FRESH) {
            return Err("string element contains poison bytes".to_string());
        }
        Ok(MVal::Str(s.to_string()))
    }
    fn debug(&self) -> String {
        let s: &str = self.as_ref();
        format!("{s:?}")
    }
}

impl Elem for Val<T24> {
    const KIND: ElemKind = ElemKind::T24;
    fn from_m(v: &MVal, _: &Inner) -> Self {
        match v {
            MVal::Obj(p) => Val(T24::new(*p)),
            _ => Val(T24::new(u64::MAX - 1)),
        }
    }
    fn to_m(&self, _: &mut Inner) -> Result<MVal, String> {
        self.0.checked_payload().map(MVal::Obj)
    }
    fn debug(&self) -> String {
        format!("{:?}", self.0)
    }
}

impl Elem for Val<Big> {
    const KIND: ElemKind = ElemKind::Big;
    fn from_m(v: &MVal, _: &Inner) -> Self {
        match v {
            MVal::Obj(p) => Val(Big::new(*p)),
            _ => Val(Big::new(u64::MAX - 1)),
        }
    }
    fn to_m(&self, _: &mut Inner) -> Result<MVal, String> {
        self.0.checked_payload().map(MVal::Obj)
    }
    fn debug(&self) -> String {
        format!("Big({})", self.0.inner.payload())
    }
}

impl Elem for Val<Zst> {
    const KIND: ElemKind = ElemKind::Zst;
    fn from_m(_: &MVal, _: &Inner) -> Self {
        Val(Zst::new())
    }
    fn to_m(&self, _: &mut Inner) -> Result<MVal, String> {
        Ok(MVal::Unit)
    }
    fn debug(&self) -> String {
        "Zst".into()
    }
}

impl Elem for List<u64> {
    const KIND: ElemKind = ElemKind::Nested;
    fn from_m(v: &MVal, inner: &Inner) -> Self {
        match v {
            MVal::Ref(id) => inner
                .lists
                .iter()
                .find(|(i, _)| i == id)
                .map(|(_, l)| l.clone())
                .unwrap_or_else(List::new),
            _ => List::new(),
        }
    }
    fn to_m(&self, inner: &mut Inner) -> Result<MVal, String> {
        let v = self.to_vec();
        match v.first() {
            Some(t) if *t >= INNER_TAG && *t < INNER_TAG + 0x10000 => {
                // The tag names the inner list - or, in histories with twins, two inner lists
                // that started with the same contents: then the one whose present contents are
                // these (observations compare contents, so equal twins are interchangeable).
                let tagged: Vec<usize> = inner.tags.iter().filter(|(_, tg)| tg == t).map(|(i, _)| *i).collect();
                let id = match tagged.len() {
                    0 | 1 => (*t - INNER_TAG) as usize,
                    _ => inner.lists.iter().filter(|(i, _)| tagged.contains(i)).find(|(_, l)| l.to_vec() == v).map(|(i, _)| *i).unwrap_or(tagged[0]),
                };
                inner.seen.push((id, v));
                Ok(MVal::Ref(id))
            }
            other => Err(format!("nested list element does not start with its identity tag: first={other:?} len={}", v.len())),
        }
    }
    fn debug(&self) -> String {
        format!("{:?}", self)
    }
}

type F<A> = TypedFunc<NoCtx, A>;

/// The compiled helper functions for one element type.
pub struct Fns<E: Elem>
where
    E::Transformed: PartialEq,
{
    pub new: F<fn() -> List<E>>,
    pub get: F<fn(List<E>, u64) -> Option<E>>,
    pub push: F<fn(List<E>, E)>,
    pub len: F<fn(List<E>) -> u64>,
    pub is_empty: F<fn(List<E>) -> bool>,
    pub cap: F<fn(List<E>) -> u64>,
    pub swap: F<fn(List<E>, u64, u64)>,
    pub concat: F<fn(List<E>, List<E>) -> List<E>>,
    pub plus: F<fn(List<E>, List<E>) -> List<E>>,
    pub contains: F<fn(List<E>, E) -> bool>,
    pub index: F<fn(List<E>, E) -> Option<u64>>,
    pub eq: F<fn(List<E>, List<E>) -> bool>,
    pub ne: F<fn(List<E>, List<E>) -> bool>,
    pub lit3: F<fn(E, E, E) -> List<E>>,
    pub lit9: F<fn(E, E, E) -> List<E>>,
    pub tmpget: F<fn(u64, E, E) -> Option<E>>,
    pub branchlit: F<fn(bool, E, E) -> List<E>>,
    pub twolit: F<fn(bool, E, E) -> List<E>>,
    pub count: F<fn(List<E>) -> u64>,
    pub forpush: F<fn(List<E>, u64) -> u64>,
    pub find: F<fn(List<E>, E) -> u64>,
    pub forrebind: F<fn(List<E>) -> u64>,
    pub pluseq: F<fn(List<E>, List<E>) -> List<E>>,
    pub indexgot: F<fn(List<E>, u64) -> Option<u64>>,
    pub push5: F<fn(List<E>, E, E, E, E, E)>,
    pub littry: F<fn(bool, E) -> Option<List<E>>>,
    pub looplit: F<fn(List<E>, u64) -> u64>,
}

pub fn helper_source() -> String {
    let mut s = String::new();
    for k in ElemKind::ALL {
        let ty = k.tyname();
        let x = k.suffix();
        s.push_str(&format!(
            r#"
fn new_{x}() -> List[{ty}] {{ List.new() }}
fn get_{x}(l: List[{ty}], i: u64) -> {ty}? {{ l.get(i) }}
fn push_{x}(l: List[{ty}], v: {ty}) {{ l.push(v); }}
fn len_{x}(l: List[{ty}]) -> u64 {{ l.len() }}
fn is_empty_{x}(l: List[{ty}]) -> bool {{ l.is_empty() }}
fn cap_{x}(l: List[{ty}]) -> u64 {{ l.capacity() }}
fn swap_{x}(l: List[{ty}], i: u64, j: u64) {{ l.swap(i, j); }}
fn concat_{x}(a: List[{ty}], b: List[{ty}]) -> List[{ty}] {{ a.concat(b) }}
fn plus_{x}(a: List[{ty}], b: List[{ty}]) -> List[{ty}] {{ a + b }}
fn contains_{x}(l: List[{ty}], v: {ty}) -> bool {{ l.contains(v) }}
fn index_{x}(l: List[{ty}], v: {ty}) -> u64? {{ l.index(v) }}
fn eq_{x}(a: List[{ty}], b: List[{ty}]) -> bool {{ a == b }}
fn ne_{x}(a: List[{ty}], b: List[{ty}]) -> bool {{ a != b }}
fn lit3_{x}(a: {ty}, b: {ty}, c: {ty}) -> List[{ty}] {{ [a, b, c] }}
fn lit9_{x}(a: {ty}, b: {ty}, c: {ty}) -> List[{ty}] {{ [a, b, c, a, b, c, a, b, c] }}
fn tmpget_{x}(i: u64, a: {ty}, b: {ty}) -> {ty}? {{ [a, b].get(i) }}
fn branchlit_{x}(c: bool, a: {ty}, b: {ty}) -> List[{ty}] {{ if c {{ [a, b] }} else {{ [b, a] }} }}
fn twolit_{x}(c: bool, a: {ty}, b: {ty}) -> List[{ty}] {{
    if c {{
        let t = [a, b];
        return t;
    }}
    [b, a]
}}
fn count_{x}(l: List[{ty}]) -> u64 {{
    let n = 0;
    for x in l {{ n = n + 1; }}
    n
}}
fn find_{x}(l: List[{ty}], v: {ty}) -> u64 {{
    let i = 0;
    for x in l {{
        if x == v {{ return i; }}
        i = i + 1;
    }}
    i
}}
fn forrebind_{x}(l: List[{ty}]) -> u64 {{
    let n = 0;
    for x in l {{
        l = [];
        n = n + 1;
    }}
    n
}}
fn pluseq_{x}(a: List[{ty}], b: List[{ty}]) -> List[{ty}] {{
    let r = a;
    r += b;
    r
}}
fn forpush_{x}(l: List[{ty}], n: u64) -> u64 {{
    let c = 0;
    for x in l {{
        if c < n {{ l.push(x); }}
        c = c + 1;
    }}
    c
}}
fn push5_{x}(l: List[{ty}], a: {ty}, b: {ty}, c: {ty}, d: {ty}, e: {ty}) {{
    l.push(a);
    l.push(b);
    l.push(c);
    l.push(d);
    l.push(e);
}}
fn indexgot_{x}(l: List[{ty}], i: u64) -> u64? {{
    match l.get(i) {{
        Some(v) => l.index(v),
        None => None,
    }}
}}
"#
        ));
        // a list literal with an element expression that can leave the function (not for the
        // optional element types: `T??` is not a type a script can write)
        if matches!(k, ElemKind::OptU64 | ElemKind::OptStr) {
            s.push_str(&format!("fn littry_{x}(c: bool, a: {ty}) -> List[{ty}]? {{ Some([a, a, a]) }}\n"));
        } else {
            s.push_str(&format!(
                "fn pick_{x}(c: bool, a: {ty}) -> {ty}? {{ if c {{ Some(a) }} else {{ None }} }}\nfn littry_{x}(c: bool, a: {ty}) -> List[{ty}]? {{ Some([a, a, pick_{x}(c, a)?]) }}\n"
            ));
        }
        match k.literals() {
            Some([(a, _), (b, _), (c, _)]) => s.push_str(&format!(
                r#"
fn looplit_{x}(l: List[{ty}], n: u64) -> u64 {{
    let acc = 0;
    let i = 0;
    while i < n {{
        let t = [{a}, {b}];
        t.push({c});
        acc = acc + t.len();
        for y in t {{ l.push(y); }}
        i = i + 1;
    }}
    for z in [{a}, {b}] {{
        let u = [{c}];
        u.push(z);
        acc = acc + u.len();
    }}
    acc
}}
"#
            )),
            None => s.push_str(&format!("fn looplit_{x}(l: List[{ty}], n: u64) -> u64 {{ 0 }}\n")),
        }
    }
    s.push_str(
        r#"
fn sum_u64(l: List[u64]) -> u64 {
    let s = 0;
    for x in l { s = s + x; }
    s
}
fn join_str(l: List[String], sep: String) -> String { l.join(sep) }
"#,
    );
    s
}

pub fn helper_runtime() -> Runtime<NoCtx> {
    Runtime::from_lib(library! {
        #[clone] type T24 = Val<T24>;
        #[clone] type Zst = Val<Zst>;
        #[clone] type Big = Val<Big>;
    })
    .expect("helper runtime")
}

impl<E: Elem> Fns<E>
where
    E::Transformed: PartialEq,
{
    pub fn load(pkg: &mut Package<NoCtx>) -> Self {
        let x = E::KIND.suffix();
        macro_rules! g {
            ($n:literal) => {
                pkg.get_function(&format!(concat!($n, "_{}"), x))
                    .unwrap_or_else(|e| panic!("helper function {}_{}: {}", $n, x, e))
            };
        }
        Fns {
            new: g!("new"),
            get: g!("get"),
            push: g!("push"),
            len: g!("len"),
            is_empty: g!("is_empty"),
            cap: g!("cap"),
            swap: g!("swap"),
            concat: g!("concat"),
            plus: g!("plus"),
            contains: g!("contains"),
            index: g!("index"),
            eq: g!("eq"),
            ne: g!("ne"),
            lit3: g!("lit3"),
            lit9: g!("lit9"),
            tmpget: g!("tmpget"),
            branchlit: g!("branchlit"),
            twolit: g!("twolit"),
            count: g!("count"),
            forpush: g!("forpush"),
            find: g!("find"),
            forrebind: g!("forrebind"),
            pluseq: g!("pluseq"),
            indexgot: g!("indexgot"),
            push5: g!("push5"),
            littry: g!("littry"),
            looplit: g!("looplit"),
        }
    }
}

/// Everything compiled during the warm-up of a list worker.
pub struct Warm {
    pub _rt: Runtime<NoCtx>,
    pub _pkg: Package<NoCtx>,
    pub u8: Arc<Fns<u8>>,
    pub u64: Arc<Fns<u64>>,
    pub str: Arc<Fns<RotoString>>,
    pub t24: Arc<Fns<Val<T24>>>,
    pub zst: Arc<Fns<Val<Zst>>>,
    pub nest: Arc<Fns<List<u64>>>,
    pub big: Arc<Fns<Val<Big>>>,
    pub f64: Arc<Fns<f64>>,
    pub u32: Arc<Fns<u32>>,
    pub optu64: Arc<Fns<Option<u64>>>,
    pub optstr: Arc<Fns<Option<RotoString>>>,
    pub unit: Arc<Fns<()>>,
    pub sum_u64: F<fn(List<u64>) -> u64>,
    pub join_str: F<fn(List<RotoString>, RotoString) -> RotoString>,
}

// SAFETY: Package and Runtime are only kept alive here, never used after warm-up.
unsafe impl Send for Warm {}
unsafe impl Sync for Warm {}

pub fn warm() -> Warm {
    let rt = helper_runtime();
    let src = helper_source();
    let mut pkg = match FileTree::test_file("helpers", &src, 0).compile(&rt) {
        Ok(p) => p,
        Err(e) => {
            let mut s = String::new();
            let _ = e.write(&mut s, false);
            panic!("helper scripts do not compile:\n{s}");
        }
    };
    Warm {
        u8: Arc::new(Fns::load(&mut pkg)),
        u64: Arc::new(Fns::load(&mut pkg)),
        str: Arc::new(Fns::load(&mut pkg)),
        t24: Arc::new(Fns::load(&mut pkg)),
        zst: Arc::new(Fns::load(&mut pkg)),
        nest: Arc::new(Fns::load(&mut pkg)),
        big: Arc::new(Fns::load(&mut pkg)),
        f64: Arc::new(Fns::load(&mut pkg)),
        u32: Arc::new(Fns::load(&mut pkg)),
        optu64: Arc::new(Fns::load(&mut pkg)),
        optstr: Arc::new(Fns::load(&mut pkg)),
        unit: Arc::new(Fns::load(&mut pkg)),
        sum_u64: pkg.get_function("sum_u64").expect("sum_u64"),
        join_str: pkg.get_function("join_str").expect("join_str"),
        _rt: rt,
        _pkg: pkg,
    }
}

pub trait WarmSel: Elem
where
    Self::Transformed: PartialEq,
{
    fn fns(w: &Warm) -> Arc<Fns<Self>>;
}
impl WarmSel for u8 {
    fn fns(w: &Warm) -> Arc<Fns<Self>> {
        w.u8.clone()
    }
}
impl WarmSel for u64 {
    fn fns(w: &Warm) -> Arc<Fns<Self>> {
        w.u64.clone()
    }
}
impl WarmSel for RotoString {
    fn fns(w: &Warm) -> Arc<Fns<Self>> {
        w.str.clone()
    }
}
impl WarmSel for Val<T24> {
    fn fns(w: &Warm) -> Arc<Fns<Self>> {
        w.t24.clone()
    }
}
impl WarmSel for Val<Zst> {
    fn fns(w: &Warm) -> Arc<Fns<Self>> {
        w.zst.clone()
    }
}
impl WarmSel for u32 {
    fn fns(w: &Warm) -> Arc<Fns<Self>> {
        w.u32.clone()
    }
}
impl WarmSel for () {
    fn fns(w: &Warm) -> Arc<Fns<Self>> {
        w.unit.clone()
    }
}
impl WarmSel for Option<RotoString> {
    fn fns(w: &Warm) -> Arc<Fns<Self>> {
        w.optstr.clone()
    }
}
impl WarmSel for Option<u64> {
    fn fns(w: &Warm) -> Arc<Fns<Self>> {
        w.optu64.clone()
    }
}
impl WarmSel for f64 {
    fn fns(w: &Warm) -> Arc<Fns<Self>> {
        w.f64.clone()
    }
}
impl WarmSel for Val<Big> {
    fn fns(w: &Warm) -> Arc<Fns<Self>> {
        w.big.clone()
    }
}
impl WarmSel for List<u64> {
    fn fns(w: &Warm) -> Arc<Fns<Self>> {
        w.nest.clone()
    }
}

/// A handle for one operation: an own clone (script calls take handles by value) or a
/// borrow of the slot's handle (the Rust API takes `&List`), which does not touch the
/// reference count.
pub enum Hnd<E: Elem>
where
    E::Transformed: PartialEq,
{
    Own(List<E>),
    Bor(std::mem::ManuallyDrop<List<E>>),
}
impl<E: Elem> std::ops::Deref for Hnd<E>
where
    E::Transformed: PartialEq,
{
    type Target = List<E>;
    fn deref(&self) -> &List<E> {
        match self {
            Hnd::Own(l) => l,
            Hnd::Bor(b) => b,
        }
    }
}
impl<E: Elem> Hnd<E>
where
    E::Transformed: PartialEq,
{
    pub fn own(self) -> List<E> {
        match self {
            Hnd::Own(l) => l,
            Hnd::Bor(b) => (*b).clone(),
        }
    }
}

/// Per-thread execution context.
pub struct Exec<E: Elem>
where
    E::Transformed: PartialEq,
{
    pub slots: Vec<Option<List<E>>>,
    pub fns: Arc<Fns<E>>,
    pub sum_u64: Option<F<fn(List<u64>) -> u64>>,
    pub join_str: Option<F<fn(List<RotoString>, RotoString) -> RotoString>>,
    pub inner: Inner,
    /// catch panics of the Rust-API paths (fault-injection configuration only)
    pub catch: bool,
    /// slot holds a bitwise copy of a handle owned elsewhere (lists shared *by reference*
    /// between threads): it must never be dropped through this slot
    pub borrowed: Vec<bool>,
}

impl<E: Elem> Drop for Exec<E>
where
    E::Transformed: PartialEq,
{
    fn drop(&mut self) {
        for i in 0..self.slots.len() {
            if self.borrowed.get(i).copied().unwrap_or(false) {
                if let Some(l) = self.slots[i].take() {
                    std::mem::forget(l);
                }
            }
        }
    }
}

fn vals_to_m<E: Elem>(v: Vec<E>, inner: &mut Inner, what: &str) -> Vec<MVal>
where
    E::Transformed: PartialEq,
{
    v.iter()
        .enumerate()
        .map(|(k, e)| match e.to_m(inner) {
            Ok(m) => m,
            Err(d) => {
                viol::record("stale-read", format!("{what}: element {k}: {d}"));
                MVal::Int(u64::MAX)
            }
        })
        .collect()
}

impl<E: Elem> Exec<E>
where
    E::Transformed: PartialEq,
{
    fn h(&self, i: usize, script: bool) -> Option<Hnd<E>> {
        let s = self.slots.get(i)?.as_ref()?;
        Some(if script {
            Hnd::Own(s.clone())
        } else {
            // SAFETY: a bitwise copy that is never dropped (ManuallyDrop) and not used after the
            // slot changes: equivalent to borrowing the slot's handle for this operation
            Hnd::Bor(std::mem::ManuallyDrop::new(unsafe { std::ptr::read(s) }))
        })
    }

    fn set_slot(&mut self, i: usize, v: Option<List<E>>) {
        let old = std::mem::replace(&mut self.slots[i], v);
        if self.borrowed.get(i).copied().unwrap_or(false) {
            std::mem::forget(old);
            self.borrowed[i] = false;
        }
    }

    fn one(&mut self, r: Option<E>, what: &str) -> Obs {
        match r {
            None => Obs::OptVal(None),
            Some(e) => match e.to_m(&mut self.inner) {
                Ok(m) => Obs::OptVal(Some(m)),
                Err(d) => {
                    viol::record("stale-read", format!("{what}: {d}"));
                    Obs::OptVal(Some(MVal::Int(u64::MAX)))
                }
            },
        }
    }

    /// Execute one operation against the real list.
    pub fn exec(&mut self, op: &Op, origin: &Origin) -> Obs {
        if self.catch && *origin == Origin::Rust {
            let r = catch_unwind(AssertUnwindSafe(|| self.exec_inner(op, origin)));
            match r {
                Ok(o) => o,
                Err(_) => Obs::Panicked,
            }
        } else {
            self.exec_inner(op, origin)
        }
    }

    fn exec_inner(&mut self, op: &Op, origin: &Origin) -> Obs {
        let script = *origin == Origin::Script;
        let f = self.fns.clone();
        self.inner.seen.clear();
        match op {
            Op::New { dst } => {
                let l = if script { f.new.call() } else { List::<E>::new() };
                self.set_slot(*dst, Some(l));
                Obs::Unit
            }
            Op::FromVec { dst, vals } => {
                let v: Vec<E> = vals.iter().map(|m| E::from_m(m, &self.inner)).collect();
                let l = if vals.len() % 2 == 0 { List::from(v) } else { v.into_iter().collect::<List<E>>() };
                self.set_slot(*dst, Some(l));
                Obs::Unit
            }
            Op::FromVecScript { dst, vals } => {
                let l = f.new.call();
                for m in vals {
                    let e = E::from_m(m, &self.inner);
                    f.push.call(l.clone(), e);
                }
                self.set_slot(*dst, Some(l));
                Obs::Unit
            }
            Op::Lit3 { dst, vals } => {
                let mut it = vals.iter().map(|m| E::from_m(m, &self.inner));
                let (a, b, c) = (it.next().unwrap(), it.next().unwrap(), it.next().unwrap());
                let l = if script { f.lit3.call(a, b, c) } else { List::from([a, b, c]) };
                self.set_slot(*dst, Some(l));
                Obs::Unit
            }
            Op::GetMove { h, i } => match self.slots.get_mut(*h).and_then(|s| s.take()) {
                Some(l) => {
                    let r = f.get.call(l, *i);
                    self.one(r, "get (handle moved into the call)")
                }
                None => Obs::Skipped,
            },
            Op::ForRebind { h } => match self.h(*h, script) {
                Some(l) => Obs::Num(f.forrebind.call(l.own())),
                None => Obs::Skipped,
            },
            Op::PlusAssign { a, b, dst } => match (self.h(*a, script), self.h(*b, script)) {
                (Some(x), Some(y)) => {
                    let r = f.pluseq.call(x.own(), y.own());
                    self.set_slot(*dst, Some(r));
                    Obs::Unit
                }
                _ => Obs::Skipped,
            },
            Op::IterConsume { h, alias, k, partial } => match self.slots.get_mut(*h).and_then(|s| s.take()) {
                Some(l) => {
                    let mut it = l.into_iter();
                    let mut out: Vec<E> = Vec::new();
                    for _ in 0..*k {
                        match it.next() {
                            Some(x) => out.push(x),
                            None => break,
                        }
                    }
                    if let Some(s) = self.slots.get_mut(*alias) {
                        *s = None;
                    }
                    if *partial {
                        // the iterator is dropped half-consumed
                        drop(it);
                    } else {
                        out.extend(it);
                    }
                    Obs::Vals(vals_to_m(out, &mut self.inner, "consuming into_iter"))
                }
                None => Obs::Skipped,
            },
            Op::TmpGet { vals, i } => {
                let a = E::from_m(&vals[0], &self.inner);
                let b = E::from_m(&vals[1], &self.inner);
                // (zero-sized parameters come last: observation O3 in DESIGN.md)
                let r = f.tmpget.call(*i, a, b);
                self.one(r, "get on a temporary list")
            }
            Op::IterWithPush { h, k, v } => match self.h(*h, script) {
                Some(l) => {
                    let mut it = l.clone().into_iter();
                    let mut out: Vec<E> = Vec::new();
                    for _ in 0..*k {
                        match it.next() {
                            Some(x) => out.push(x),
                            None => break,
                        }
                    }
                    l.push(E::from_m(v, &self.inner));
                    out.extend(it);
                    Obs::Vals(vals_to_m(out, &mut self.inner, "into_iter with a push in between"))
                }
                None => Obs::Skipped,
            },
            Op::BranchLit { dst, c, vals, shape } => {
                let a = E::from_m(&vals[0], &self.inner);
                let b = E::from_m(&vals[1], &self.inner);
                let l = if *shape == 0 { f.branchlit.call(*c, a, b) } else { f.twolit.call(*c, a, b) };
                self.set_slot(*dst, Some(l));
                Obs::Unit
            }
            Op::Lit9 { dst, vals } => {
                let mut it = vals.iter().map(|m| E::from_m(m, &self.inner));
                let (a, b, c) = (it.next().unwrap(), it.next().unwrap(), it.next().unwrap());
                let l = f.lit9.call(a, b, c);
                self.set_slot(*dst, Some(l));
                Obs::Unit
            }
            Op::CloneH { src, dst } => match self.h(*src, script) {
                Some(l) => {
                    self.set_slot(*dst, Some(l.own()));
                    Obs::Unit
                }
                None => Obs::Skipped,
            },
            Op::DropH { h } => {
                self.set_slot(*h, None);
                Obs::Unit
            }
            Op::Push { h, v } => match self.h(*h, script) {
                Some(l) => {
                    let e = E::from_m(v, &self.inner);
                    if script { f.push.call(l.own(), e) } else { l.push(e) }
                    Obs::Unit
                }
                None => Obs::Skipped,
            },
            Op::Get { h, i } => match self.h(*h, script) {
                Some(l) => {
                    let r = if script { f.get.call(l.own(), *i) } else { l.get(*i as usize) };
                    self.one(r, "get")
                }
                None => Obs::Skipped,
            },
            Op::Len { h } => match self.h(*h, script) {
                Some(l) => Obs::Num(if script { f.len.call(l.own()) } else { l.len() as u64 }),
                None => Obs::Skipped,
            },
            Op::IsEmpty { h } => match self.h(*h, script) {
                Some(l) => Obs::Bool(if script { f.is_empty.call(l.own()) } else { l.is_empty() }),
                None => Obs::Skipped,
            },
            Op::Cap { h } => match self.h(*h, script) {
                Some(l) => Obs::Num(if script { f.cap.call(l.own()) } else { l.capacity() as u64 }),
                None => Obs::Skipped,
            },
            Op::Swap { h, i, j } => match self.h(*h, script) {
                Some(l) => {
                    if script { f.swap.call(l.own(), *i, *j) } else { l.swap(*i as usize, *j as usize) }
                    Obs::Unit
                }
                None => Obs::Skipped,
            },
            Op::Contains { h, v } => match self.h(*h, script) {
                Some(l) => {
                    let e = E::from_m(v, &self.inner);
                    Obs::Bool(if script { f.contains.call(l.own(), e) } else { l.contains(&e) })
                }
                None => Obs::Skipped,
            },
            Op::Index { h, v } => match self.h(*h, script) {
                Some(l) => {
                    let e = E::from_m(v, &self.inner);
                    Obs::OptNum(if script { f.index.call(l.own(), e) } else { l.index(&e).map(|x| x as u64) })
                }
                None => Obs::Skipped,
            },
            Op::LitTry { dst, v, some } => {
                let e = E::from_m(v, &self.inner);
                match f.littry.call(*some, e) {
                    Some(l) => {
                        self.set_slot(*dst, Some(l));
                        Obs::Bool(true)
                    }
                    None => Obs::Bool(false),
                }
            }
            Op::PushMany { h, vals } => match self.h(*h, script) {
                Some(l) => {
                    let mut it = vals.iter().map(|m| E::from_m(m, &self.inner));
                    if script && vals.len() == 5 {
                        let (a, b, c, d, e) = (it.next().unwrap(), it.next().unwrap(), it.next().unwrap(), it.next().unwrap(), it.next().unwrap());
                        f.push5.call(l.own(), a, b, c, d, e);
                    } else {
                        for e in it {
                            l.push(e);
                        }
                    }
                    Obs::Unit
                }
                None => Obs::Skipped,
            },
            Op::IndexGot { h, i } => match self.h(*h, script) {
                Some(l) => Obs::OptNum(if script {
                    f.indexgot.call(l.own(), *i)
                } else {
                    match l.get(*i as usize) {
                        Some(e) => l.index(&e).map(|x| x as u64),
                        None => None,
                    }
                }),
                None => Obs::Skipped,
            },
            Op::LoopLit { h, n, .. } => match self.h(*h, true) {
                Some(l) => Obs::Num(f.looplit.call(l.own(), *n)),
                None => Obs::Skipped,
            },
            Op::Concat { a, b, dst, plus } => match (self.h(*a, script), self.h(*b, script)) {
                (Some(x), Some(y)) => {
                    let r = if script {
                        if *plus { f.plus.call(x.own(), y.own()) } else { f.concat.call(x.own(), y.own()) }
                    } else {
                        x.concat(&y)
                    };
                    match dst {
                        Some(d) => {
                            self.set_slot(*d, Some(r));
                            Obs::Unit
                        }
                        None => {
                            let v = r.to_vec();
                            drop(r);
                            Obs::Vals(vals_to_m(v, &mut self.inner, "concat result"))
                        }
                    }
                }
                _ => Obs::Skipped,
            },
            Op::Eq { a, b, ne } => match (self.h(*a, script), self.h(*b, script)) {
                (Some(x), Some(y)) => Obs::Bool(if script {
                    if *ne { f.ne.call(x.own(), y.own()) } else { f.eq.call(x.own(), y.own()) }
                } else if *ne {
                    *x != *y
                } else {
                    *x == *y
                }),
                _ => Obs::Skipped,
            },
            Op::ToVec { h } => match self.h(*h, script) {
                Some(l) => {
                    let v = l.to_vec();
                    Obs::Vals(vals_to_m(v, &mut self.inner, "to_vec"))
                }
                None => Obs::Skipped,
            },
            Op::Iter { h } => match self.h(*h, script) {
                Some(l) => {
                    let v: Vec<E> = l.own().into_iter().collect();
                    Obs::Vals(vals_to_m(v, &mut self.inner, "into_iter"))
                }
                None => Obs::Skipped,
            },
            Op::Debug { h } => match self.h(*h, script) {
                Some(l) => {
                    // `Debug for List<A>` needs `A: Debug`; render through the same element loop
                    let mut s = String::from("List([");
                    for (k, e) in l.own().into_iter().enumerate() {
                        if k > 0 {
                            s.push_str(", ");
                        }
                        s.push_str(&e.debug());
                    }
                    s.push_str("])");
                    Obs::Text(s)
                }
                None => Obs::Skipped,
            },
            Op::Join { h, sep } => match (self.h(*h, script), &self.join_str) {
                (Some(l), Some(j)) => {
                    // SAFETY: Join is only generated for String lists, where E = RotoString
                    let l: List<RotoString> = unsafe { std::mem::transmute_copy(&std::mem::ManuallyDrop::new(l.own())) };
                    let r = j.call(l, RotoString::from(sep.as_str()));
                    let s: &str = r.as_ref();
                    Obs::Text(s.to_string())
                }
                _ => Obs::Skipped,
            },
            Op::ForCount { h } => match self.h(*h, script) {
                Some(l) => Obs::Num(f.count.call(l.own())),
                None => Obs::Skipped,
            },
            Op::ForSum { h } => match (self.h(*h, script), &self.sum_u64) {
                (Some(l), Some(s)) => {
                    // SAFETY: ForSum is only generated for u64 lists, where E = u64
                    let l: List<u64> = unsafe { std::mem::transmute_copy(&std::mem::ManuallyDrop::new(l.own())) };
                    Obs::Num(s.call(l))
                }
                _ => Obs::Skipped,
            },
            Op::ForPush { h, n } => match self.h(*h, script) {
                Some(l) => Obs::Num(f.forpush.call(l.own(), *n)),
                None => Obs::Skipped,
            },
            Op::ForFind { h, v } => match self.h(*h, script) {
                Some(l) => {
                    let e = E::from_m(v, &self.inner);
                    Obs::Num(f.find.call(l.own(), e))
                }
                None => Obs::Skipped,
            },
            Op::InnerPush { inner, v } => match self.inner.lists.iter().find(|(i, _)| i == inner) {
                Some((_, l)) => {
                    l.push(*v);
                    Obs::Unit
                }
                None => Obs::Skipped,
            },
        }
    }
}

//! Violations recorded during a run (never by panicking: a panic inside a
//! built-in would cross `extern "C"` and abort).

use crate::alloc;
use std::sync::Mutex;

static V: Mutex<Vec<(String, String)>> = Mutex::new(Vec::new());

pub fn record(class: &str, detail: impl Into<String>) {
    let _mg = alloc::ModeGuard::new(alloc::MODE_PLAIN);
    let mut g = V.lock().unwrap();
    if g.len() < 32 {
        g.push((class.to_string(), detail.into()));
    }
}

pub fn any() -> bool {
    !V.lock().unwrap().is_empty()
}

pub fn take() -> Vec<(String, String)> {
    let _mg = alloc::ModeGuard::new(alloc::MODE_PLAIN);
    let mut out = std::mem::take(&mut *V.lock().unwrap());
    for (c, d) in alloc::take_violations() {
        out.push((c.to_string(), d));
    }
    out
}

pub fn peek() -> Vec<(String, String)> {
    let _mg = alloc::ModeGuard::new(alloc::MODE_PLAIN);
    V.lock().unwrap().clone()
}

//! C15 (sequential histories against the heap model) and C16 (concurrent
//! histories, linearizability + stale storage + progress) on `roto::List`.

use crate::listx::{self, Elem, ElemKind, Exec, Inner, Warm, WarmSel, INNER_TAG};
use crate::model::{self, Event, Heap, LOp, MVal, Obs, Op, Origin, SeqModel};
use crate::rng::{self, Rng};
use crate::sched::{self, SimCfg, Strategy};
use crate::tracked::{self, Big, T24, Zst};
use crate::{RunResult, alloc, viol};
use roto::{List, RotoString, Val};
use serde::{Deserialize, Serialize};
use std::collections::BTreeMap;
use std::sync::{Arc, Mutex};

#[derive(Clone, Debug, Serialize, Deserialize)]
pub struct ThreadPlan {
    /// slot -> index into `init` (shared list) or nothing
    pub slots: Vec<Option<usize>>,
    pub ops: Vec<(Op, Origin)>,
}

#[derive(Clone, Debug, Serialize, Deserialize, PartialEq)]
pub enum Fault {
    /// the n-th element clone from the start of op `at` panics (Rust-API paths)
    ClonePanic { thread: usize, at: usize, nth: i64 },
    EqPanic { thread: usize, at: usize, nth: i64 },
}

#[derive(Clone, Debug, Serialize, Deserialize)]
pub struct ListDesc {
    pub property: String,
    pub scenario: String,
    pub run_seed: u64,
    pub elem: ElemKind,
    pub strategy: String,
    pub sched_seed: u64,
    /// initial contents of the shared lists (model ids 0..)
    pub init: Vec<Vec<MVal>>,
    /// nested element type only: initial contents of inner lists (model ids follow `init`)
    #[serde(default)]
    pub inner_init: Vec<Vec<MVal>>,
    pub threads: Vec<ThreadPlan>,
    #[serde(default)]
    pub faults: Vec<Fault>,
    /// concurrent runs only: the threads share the *same handle objects* (as `&List` would:
    /// the reference count stays 1) instead of holding clones
    #[serde(default)]
    pub by_ref: bool,
    /// concurrent runs only: which of the initial lists are made by a script (`[]` and script-side
    /// pushes: the element vtable a script makes has no clone function for plain data)
    #[serde(default)]
    pub script_made: Vec<bool>,
    /// concurrent runs only: (thread, operation index, k) - that operation is single-stepped and
    /// preempted after exactly k instructions of code under test (sched::fine_window)
    #[serde(default)]
    pub fine: Option<(usize, usize, u64)>,
    /// with `fine`: preempt right after the j-th atomic instruction of the operation instead
    #[serde(default)]
    pub fine_atomic: Option<u64>,
    /// recorded schedule (tid chosen at every decision); present = replay literally
    #[serde(default)]
    pub schedule: Option<Vec<u8>>,
}

/// For runs that contain compilations (C11, C12): one run in four stalls threads at change
/// points counted in events other than interning points.
pub fn pick_strategy_compiling(r: &mut Rng, horizon: u32) -> Strategy {
    let s = pick_strategy(r, horizon);
    if r.chance(1, 4) {
        let depth = 2 + r.below(3) as u8;
        let horizon = *r.pick(&[150u32, 500, 1500]);
        return Strategy::PctX { depth, horizon };
    }
    s
}

pub fn pick_strategy(r: &mut Rng, horizon: u32) -> Strategy {
    match r.weighted(&[20, 8, 14, 10, 8, 10, 8, 22]) {
        0 => Strategy::Uniform,
        1 => Strategy::Sticky { stay: 50 },
        2 => Strategy::Sticky { stay: 80 },
        3 => Strategy::Sticky { stay: 95 },
        4 => Strategy::Pct { depth: 1, horizon },
        5 => Strategy::Pct { depth: 2, horizon },
        6 => Strategy::Pct { depth: 3, horizon },
        _ => Strategy::Targeted,
    }
}

struct Gen<'a> {
    r: &'a mut Rng,
    elem: ElemKind,
    /// sequential histories do not need unique values: empty strings and duplicates are welcome
    dups: bool,
    next_val: u64,
    /// values that exist somewhere (for contains/index)
    pool: Vec<MVal>,
}

impl Gen<'_> {
    fn fresh(&mut self) -> MVal {
        if self.dups && self.r.chance(1, 5) {
            if self.elem == ElemKind::Str && self.r.chance(1, 2) {
                return MVal::Str(String::new());
            }
            if !self.pool.is_empty() && self.elem != ElemKind::Nested {
                return self.r.pick(&self.pool).clone();
            }
        }
        self.next_val += 1;
        let v = match self.elem {
            ElemKind::U8 => MVal::Int(1 + (self.next_val % 0xC0)),
            ElemKind::U64 | ElemKind::U32 => MVal::Int(100 + self.next_val),
            ElemKind::OptU64 => {
                if self.dups && self.r.chance(1, 4) { MVal::OptInt(None) } else { MVal::OptInt(Some(100 + self.next_val)) }
            }
            ElemKind::OptStr => {
                if self.dups && self.r.chance(1, 4) { MVal::OptStr(None) } else { MVal::OptStr(Some(format!("o{}", self.next_val))) }
            }
            ElemKind::Str => MVal::Str(format!("s{}", self.next_val)),
            ElemKind::T24 | ElemKind::Big => MVal::Obj(1000 + self.next_val),
            ElemKind::F64 => {
                // mostly distinct ordinary values; sometimes the values on which bitwise and IEEE equality differ
                if self.dups && self.r.chance(1, 3) {
                    MVal::F((*self.r.pick(&[0.0f64, -0.0, f64::NAN, 1.5, -7.25, f64::INFINITY])).to_bits())
                } else {
                    MVal::F((100.5 + self.next_val as f64).to_bits())
                }
            }
            ElemKind::Zst | ElemKind::UnitTy => MVal::Unit,
            ElemKind::Nested => MVal::Int(0), // replaced by caller
        };
        self.pool.push(v.clone());
        v
    }
    fn known(&mut self) -> MVal {
        if self.dups && self.r.chance(1, 8) {
            // the value that the next `fresh()` will produce: asked for before it exists
            match self.elem {
                ElemKind::U64 | ElemKind::U32 => return MVal::Int(100 + self.next_val + 1),
                ElemKind::U8 => return MVal::Int(1 + ((self.next_val + 1) % 0xC0)),
                ElemKind::Str => return MVal::Str(format!("s{}", self.next_val + 1)),
                ElemKind::T24 | ElemKind::Big => return MVal::Obj(1000 + self.next_val + 1),
                _ => {}
            }
        }
        if self.pool.is_empty() || self.r.chance(1, 5) {
            // a value that is nowhere
            match self.elem {
                ElemKind::U8 => MVal::Int(0xC8),
                ElemKind::U64 | ElemKind::U32 => MVal::Int(99),
                ElemKind::OptU64 => MVal::OptInt(if self.r.chance(1, 2) { None } else { Some(99) }),
                ElemKind::OptStr => MVal::OptStr(if self.r.chance(1, 2) { None } else { Some("absent".into()) }),
                ElemKind::Str => MVal::Str("absent".into()),
                ElemKind::T24 | ElemKind::Big => MVal::Obj(999),
                ElemKind::F64 => MVal::F((*self.r.pick(&[99.25f64, 0.0, -0.0, f64::NAN])).to_bits()),
                ElemKind::Zst | ElemKind::UnitTy => MVal::Unit,
                ElemKind::Nested => MVal::Int(0),
            }
        } else {
            self.r.pick(&self.pool).clone()
        }
    }
}

fn elem_for(r: &mut Rng, with_nested: bool) -> ElemKind {
    if with_nested {
        *r.pick(&[
            ElemKind::U64,
            ElemKind::U64,
            ElemKind::U8,
            ElemKind::Str,
            ElemKind::Str,
            ElemKind::T24,
            ElemKind::T24,
            ElemKind::T24,
            ElemKind::Zst,
            ElemKind::Nested,
            ElemKind::Nested,
            ElemKind::Big,
            ElemKind::F64,
            ElemKind::F64,
            ElemKind::U32,
            ElemKind::OptU64,
            ElemKind::OptStr,
            ElemKind::UnitTy,
        ])
    } else {
        *r.pick(&[
            ElemKind::U64,
            ElemKind::U64,
            ElemKind::U64,
            ElemKind::U8,
            ElemKind::Str,
            ElemKind::Str,
            ElemKind::T24,
            ElemKind::T24,
            ElemKind::T24,
            ElemKind::Zst,
            ElemKind::Big,
            ElemKind::F64,
            ElemKind::U32,
            ElemKind::OptU64,
            ElemKind::OptStr,
            ElemKind::UnitTy,
        ])
    }
}

// ------------------------------------------------------------------ C16 generation

/// The two "hot" positions of a long initial list: one near the front, one far behind (behind
/// position 1024 when the list is that long). Searches and swaps of one run concentrate on them.
fn hot(len: usize) -> (usize, usize) {
    (3.min(len.saturating_sub(1)), if len > 1030 { 1028 } else { len - 1 - (len / 8) })
}

pub fn generate_c16(run_seed: u64, thorough: bool) -> ListDesc {
    let by_ref = rng::derive(run_seed, &[rng::label("by-ref")]) % 5 == 0;
    let mut r = Rng::new(rng::derive(run_seed, &[rng::label("workload")]));
    let mut elem = elem_for(&mut r, false);
    // one run in fourteen: lists of lists (comparing elements takes the locks of inner lists
    // while the lock of the outer list is held)
    let mut xr = Rng::new(rng::derive(run_seed, &[rng::label("c16-extra")]));
    let nested = xr.chance(1, 14);
    let mut inner_init: Vec<Vec<MVal>> = Vec::new();
    if nested {
        elem = ElemKind::Nested;
        for k in 0..2 + xr.below(3) {
            let mut v = vec![MVal::Int(INNER_TAG + k)];
            for j in 0..xr.below(3) {
                v.push(MVal::Int(10 * k + j));
            }
            inner_init.push(v);
        }
    }
    let n_inner = inner_init.len() as u64;
    let mut g = Gen { r: &mut r, elem, dups: false, next_val: 0, pool: vec![] };
    let fresh = |g: &mut Gen| -> MVal { if nested { MVal::Ref(g.r.below(n_inner) as usize) } else { g.fresh() } };
    let nlists = 1 + g.r.weighted(&[50, 35, 15]);
    let script_made: Vec<bool> = (0..nlists).map(|_| xr.chance(1, 3)).collect();
    let mut init = Vec::new();
    for _ in 0..nlists {
        // growth boundaries: capacity is 4/8/16/32 (8/16/32 for 1-byte elements); one list in
        // seven is long, so that anything done in chunks or batches has more than one chunk
        // ... and one in forty is very long (more than one chunk even for a chunk size of 1024)
        let cheap = matches!(elem, ElemKind::U8 | ElemKind::U32 | ElemKind::U64 | ElemKind::F64 | ElemKind::OptU64);
        let len = if cheap && g.r.chance(1, 30) {
            *g.r.pick(&[1023usize, 1024, 1025, 1040, 2050])
        } else if g.r.chance(1, 7) {
            *g.r.pick(&[15usize, 16, 17, 24, 31, 32, 33, 40])
        } else {
            *g.r.pick(&[0usize, 1, 3, 4, 4, 4, 7, 8, 8, 2])
        };
        let v: Vec<MVal> = (0..len).map(|_| fresh(&mut g)).collect();
        init.push(v);
    }
    let nthreads = if thorough { 2 + g.r.weighted(&[50, 35, 15]) } else { 2 + g.r.weighted(&[65, 35]) };
    let max_ops = if thorough { 5 } else { 3 };
    let mut lens: Vec<usize> = init.iter().map(|v| v.len()).collect();
    let mut threads = Vec::new();
    for _ in 0..nthreads {
        // slots 0..nlists hold the shared lists, one spare slot
        let mut slots: Vec<Option<usize>> = (0..nlists).map(Some).collect();
        // aliasing: sometimes a second slot for the same list
        slots.push(if g.r.chance(1, 3) { Some(g.r.below(nlists as u64) as usize) } else { None });
        let nops = 1 + g.r.below(max_ops) as usize;
        let mut ops = Vec::new();
        let mut cur = slots.clone();
        for _ in 0..nops {
            let live: Vec<usize> = (0..cur.len()).filter(|&s| cur[s].is_some()).collect();
            if live.is_empty() {
                break;
            }
            let h = *g.r.pick(&live);
            let lid = cur[h].unwrap();
            let len = lens[lid] as u64;
            let idx = |g: &mut Gen| -> u64 {
                match g.r.below(6) {
                    0 => 0,
                    1 => len.saturating_sub(1),
                    2 => len,
                    3 => len + 1,
                    _ => g.r.below(len + 2),
                }
            };
            let mut kind = g.r.weighted(&[30, 26, 4, 5, 5, 3, 6, 7, 5, 2, 2, 3, 2, 1, 1]);
            if len > 100 && matches!(kind, 8 | 11 | 12) {
                // no element-by-element loops over very long lists (thousands of atomic steps)
                kind = 4 + g.r.below(2) as usize;
            }
            let mut origin = if g.r.chance(45, 100) { Origin::Script } else { Origin::Rust };
            let op = match kind {
                0 if !by_ref && g.r.chance(1, 8) => {
                    origin = Origin::Script;
                    cur[h] = None;
                    Op::GetMove { h, i: idx(&mut g) }
                }
                0 => Op::Get { h, i: idx(&mut g) },
                1 if len < 40 && g.r.chance(1, 6) => {
                    lens[lid] += 5;
                    Op::PushMany { h, vals: (0..5).map(|_| fresh(&mut g)).collect() }
                }
                1 => {
                    lens[lid] += 1;
                    Op::Push { h, v: fresh(&mut g) }
                }
                2 => Op::Len { h },
                3 => {
                    if len > 12 && g.r.chance(1, 2) {
                        // far apart, and preferably the list's "hot" elements (the ones other
                        // operations of this run look for): one near the front, one far behind
                        let (hf, hb) = hot(init[lid].len());
                        if g.r.chance(2, 3) {
                            Op::Swap { h, i: hf as u64, j: hb as u64 }
                        } else {
                            Op::Swap { h, i: g.r.below(len / 2), j: len / 2 + g.r.below(len - len / 2) }
                        }
                    } else {
                        Op::Swap { h, i: idx(&mut g), j: idx(&mut g) }
                    }
                }
                4 | 5 => {
                    // mostly look for something that is in this very list (initial element) - in long
                    // lists preferably one of the two hot elements - else anything
                    let v = if init[lid].len() > 12 && g.r.chance(1, 2) {
                        let (hf, hb) = hot(init[lid].len());
                        init[lid][if g.r.chance(1, 2) { hf } else { hb }].clone()
                    } else if !init[lid].is_empty() && g.r.chance(2, 3) {
                        g.r.pick(&init[lid]).clone()
                    } else if nested {
                        fresh(&mut g)
                    } else {
                        g.known()
                    };
                    if kind == 4 { Op::Contains { h, v } } else { Op::Index { h, v } }
                }
                6 => {
                    let b = *g.r.pick(&live);
                    Op::Concat { a: h, b, dst: None, plus: origin == Origin::Script && g.r.chance(1, 2) }
                }
                7 => {
                    let b = *g.r.pick(&live);
                    Op::Eq { a: h, b, ne: origin == Origin::Script && g.r.chance(1, 3) }
                }
                8 => {
                    origin = Origin::Rust;
                    if g.r.chance(1, 3) { Op::Iter { h } } else { Op::ToVec { h } }
                }
                9 => {
                    origin = Origin::Rust;
                    let dst = cur.len() - 1;
                    cur[dst] = cur[h];
                    Op::CloneH { src: h, dst }
                }
                10 => {
                    origin = Origin::Rust;
                    cur[h] = None;
                    Op::DropH { h }
                }
                11 => {
                    origin = Origin::Script;
                    Op::ForCount { h }
                }
                12 => {
                    if elem == ElemKind::U64 {
                        origin = Origin::Script;
                        Op::ForSum { h }
                    } else if elem == ElemKind::Str {
                        origin = Origin::Script;
                        Op::Join { h, sep: (*g.r.pick(&["", ",", "--"])).to_string() }
                    } else {
                        Op::Get { h, i: idx(&mut g) }
                    }
                }
                13 => Op::IsEmpty { h },
                _ => Op::Cap { h },
            };
            ops.push((op, origin));
        }
        threads.push(ThreadPlan { slots, ops });
    }
    let total_ops: usize = threads.iter().map(|t| t.ops.len()).sum();
    let horizon = (total_ops as u32) * 5 + 4;
    let mut sr = Rng::new(rng::derive(run_seed, &[rng::label("strategy")]));
    let strategy = pick_strategy(&mut sr, horizon);
    // one run in sixteen: one operation gets an instruction-level preemption (between two plain
    // instructions of the list code or of generated code, where no hook point exists). Rare on
    // purpose: a single-stepped run costs twenty ordinary ones on this VM.
    let mut fr = Rng::new(rng::derive(run_seed, &[rng::label("fine")]));
    let mut fine = None;
    if threads.len() > 1 && fr.chance(1, 16) {
        // Rust-origin operations only: a window on a script-origin operation mostly single-steps
        // the call glue and the generated code around the list operation, which is C12's subject
        // (and where a soak with seed 23 produced ten reports that are not yet classified, see
        // DESIGN 10.11, observation O5)
        let cands: Vec<(usize, usize)> = threads.iter().enumerate().flat_map(|(t, p)| p.ops.iter().enumerate().filter(|(_, o)| o.1 == Origin::Rust).map(move |(i, _)| (t, i))).collect();
        if !cands.is_empty() {
            let (t, i) = *fr.pick(&cands);
            // log-uniform in 1..=4095
            let bits = fr.below(12);
            fine = Some((t, i, (1u64 << bits) + fr.below(1u64 << bits)));
        }
    }
    ListDesc {
        property: "C16".into(),
        scenario: "list-mt".into(),
        run_seed,
        elem,
        strategy: strategy.name(),
        sched_seed: rng::derive(run_seed, &[rng::label("schedule")]),
        init,
        inner_init,
        threads,
        faults: vec![],
        by_ref,
        script_made,
        fine,
        fine_atomic: if fine.is_some() && fr.chance(1, 2) { Some(1 + fr.below(6)) } else { None },
        schedule: None,
    }
}

// ------------------------------------------------------------------ C15 generation

pub fn generate_c15(run_seed: u64, thorough: bool, faults: bool) -> ListDesc {
    let mut r = Rng::new(rng::derive(run_seed, &[rng::label("workload")]));
    let elem = if faults { ElemKind::T24 } else { elem_for(&mut r, true) };
    let mut g = Gen { r: &mut r, elem, dups: true, next_val: 0, pool: vec![] };
    let nslots = 3usize;
    // nested: a few inner lists, each starting with its identity tag
    let mut inner_init: Vec<Vec<MVal>> = Vec::new();
    let n_inner = if elem == ElemKind::Nested { 2 + g.r.below(3) as usize } else { 0 };
    // model ids of inner lists come after the outer lists created during the history, so
    // they are allocated first: ids 0..n_inner
    // One history in three has *twins*: inner lists 2j and 2j+1 are different lists with the same
    // tag and the same initial contents - equal by value, distinct by identity - so that two outer
    // lists can be equal without sharing their elements, and stop being equal when one twin changes.
    let twins = n_inner >= 2 && g.r.chance(1, 3);
    for k in 0..n_inner {
        if twins && k % 2 == 1 {
            let prev: Vec<MVal> = inner_init[k - 1].clone();
            inner_init.push(prev);
            continue;
        }
        let mut v = vec![MVal::Int(INNER_TAG + k as u64)];
        for _ in 0..g.r.below(4) {
            g.next_val += 1;
            v.push(MVal::Int(100 + g.next_val));
        }
        inner_init.push(v);
    }
    let fresh = |g: &mut Gen| -> MVal {
        if g.elem == ElemKind::Nested {
            let v = MVal::Ref(g.r.below(n_inner as u64) as usize);
            g.pool.push(v.clone());
            v
        } else {
            g.fresh()
        }
    };
    let known = |g: &mut Gen| -> MVal {
        if g.elem == ElemKind::Nested {
            MVal::Ref(g.r.below(n_inner as u64) as usize)
        } else {
            g.known()
        }
    };
    let max_len = if thorough { 60 } else { 40 };
    let nops = 1 + g.r.below(max_len) as usize;
    let mut ops: Vec<(Op, Origin)> = Vec::new();
    // shadow model to steer generation (lengths, which slots are filled)
    let mut m = SeqModel::new(nslots);
    for k in 0..n_inner {
        m.heap.new_list(inner_init[k].clone());
    }
    let script_ok = |op: &Op| -> bool { !matches!(op, Op::IterConsume { .. } | Op::IterWithPush { .. } | Op::InnerPush { .. } | Op::FromVec { .. } | Op::CloneH { .. } | Op::DropH { .. } | Op::ToVec { .. } | Op::Iter { .. } | Op::Debug { .. }) };
    let rust_ok = |op: &Op| -> bool { !matches!(op, Op::FromVecScript { .. } | Op::LoopLit { .. } | Op::LitTry { .. } | Op::ForRebind { .. } | Op::PlusAssign { .. } | Op::GetMove { .. } | Op::TmpGet { .. } | Op::BranchLit { .. } | Op::Lit9 { .. } | Op::Join { .. } | Op::ForCount { .. } | Op::ForSum { .. } | Op::ForPush { .. } | Op::ForFind { .. }) };
    // "observe, mutate, observe again": after a query, sometimes one of its lists is changed and
    // the very same query repeated - the shape that catches anything remembered between calls
    let mut followups: std::collections::VecDeque<(Op, Origin)> = std::collections::VecDeque::new();
    for _ in 0..nops {
        if let Some((op, origin)) = followups.pop_front() {
            m.apply(&op);
            ops.push((op, origin));
            continue;
        }
        let filled: Vec<usize> = (0..nslots).filter(|&s| m.slots[s].is_some()).collect();
        let any = |g: &mut Gen| g.r.below(nslots as u64) as usize;
        let op = if elem == ElemKind::Nested && g.r.chance(1, 8) {
            g.next_val += 1;
            Op::InnerPush { inner: g.r.below(n_inner as u64) as usize, v: 100 + g.next_val }
        } else if filled.is_empty() || g.r.chance(1, 12) {
            match g.r.below(6) {
                5 if !matches!(elem, ElemKind::OptU64 | ElemKind::OptStr) => Op::LitTry { dst: any(&mut g), v: fresh(&mut g), some: g.r.chance(1, 2) },
                4 => Op::BranchLit { dst: any(&mut g), c: g.r.chance(1, 2), vals: (0..2).map(|_| fresh(&mut g)).collect(), shape: g.r.below(2) as u8 },
                0 => Op::New { dst: any(&mut g) },
                1 => {
                    // a fresh list, or (one time in three) an element-wise copy of a list that exists:
                    // equal contents in a distinct list, so that `==` has something to say yes to
                    let vals: Vec<MVal> = if !filled.is_empty() && (g.r.chance(1, 3) || (twins && g.r.chance(1, 2))) {
                        let src = *g.r.pick(&filled);
                        let mut c = m.heap.lists[m.slots[src].unwrap()].clone();
                        if twins && g.r.chance(1, 2) {
                            // ... made of the twins of its elements: equal, and sharing nothing
                            for v in c.iter_mut() {
                                if let MVal::Ref(r) = v {
                                    if (*r ^ 1) < n_inner {
                                        *r ^= 1;
                                    }
                                }
                            }
                        }
                        c
                    } else {
                        let n = *g.r.pick(&[0usize, 1, 2, 3, 4, 5, 8, 9, 15, 16, 17, 31, 32, 33]);
                        (0..n).map(|_| fresh(&mut g)).collect()
                    };
                    if g.r.chance(1, 3) { Op::FromVecScript { dst: any(&mut g), vals } } else { Op::FromVec { dst: any(&mut g), vals } }
                }
                2 => Op::Lit9 { dst: any(&mut g), vals: (0..3).map(|_| fresh(&mut g)).collect() },
                _ => Op::Lit3 { dst: any(&mut g), vals: (0..3).map(|_| fresh(&mut g)).collect() },
            }
        } else {
            let h = *g.r.pick(&filled);
            let len = m.heap.lists[m.slots[h].unwrap()].len() as u64;
            let idx = |g: &mut Gen| -> u64 {
                match g.r.below(7) {
                    0 => 0,
                    1 => len.saturating_sub(1),
                    2 => len,
                    3 => len + 1,
                    4 => match g.r.below(5) {
                        0 => u64::MAX - g.r.below(2),
                        // indices whose byte offset wraps around for 8-, 16- and 24-byte elements
                        1 => (1u64 << 61) + g.r.below(len + 1),
                        2 => (1u64 << 60) + g.r.below(len + 1),
                        3 => (1u64 << 63) + g.r.below(len + 1),
                        _ => (1u64 << 32) + g.r.below(len + 1),
                    },
                    _ => g.r.below(len + 2),
                }
            };
            match g.r.weighted(&[22, 12, 3, 2, 2, 6, 5, 4, 8, 7, 5, 3, 2, 3, 4, 3, 3, 3, 3, 4, 3, 3, 3, 2, 2, 3, 3, 2]) {
                0 => Op::Push { h, v: fresh(&mut g) },
                1 => Op::Get { h, i: idx(&mut g) },
                2 => Op::Len { h },
                3 => Op::IsEmpty { h },
                4 => Op::Cap { h },
                5 => Op::Swap { h, i: idx(&mut g), j: idx(&mut g) },
                6 => Op::Contains { h, v: known(&mut g) },
                7 => Op::Index { h, v: known(&mut g) },
                8 => {
                    let b = *g.r.pick(&filled);
                    // keep lists from exploding
                    let tot = len + m.heap.lists[m.slots[b].unwrap()].len() as u64;
                    if tot > 40 { Op::Len { h } } else { Op::Concat { a: h, b, dst: Some(any(&mut g)), plus: g.r.chance(1, 2) } }
                }
                9 => {
                    let mut b = *g.r.pick(&filled);
                    if twins && g.r.chance(2, 3) {
                        // prefer a different list that is equal to this one right now
                        let eqs: Vec<usize> = filled.iter().copied().filter(|&s| m.slots[s] != m.slots[h] && m.heap.list_eq(m.slots[s].unwrap(), m.slots[h].unwrap())).collect();
                        if !eqs.is_empty() {
                            b = *g.r.pick(&eqs);
                        }
                    }
                    Op::Eq { a: h, b, ne: g.r.chance(1, 3) }
                }
                10 => Op::ToVec { h },
                11 => Op::Iter { h },
                12 => Op::Debug { h },
                13 => Op::CloneH { src: h, dst: any(&mut g) },
                14 => Op::DropH { h },
                15 => Op::ForCount { h },
                16 => {
                    if elem == ElemKind::U64 {
                        Op::ForSum { h }
                    } else if elem == ElemKind::Str {
                        Op::Join { h, sep: (*g.r.pick(&["", ",", "--"])).to_string() }
                    } else {
                        Op::ForCount { h }
                    }
                }
                17 => {
                    let n = g.r.below(4);
                    if len > 20 { Op::Len { h } } else { Op::ForPush { h, n } }
                }
                18 => Op::Concat { a: h, b: h, dst: Some(any(&mut g)), plus: false },
                20 => Op::TmpGet { vals: (0..2).map(|_| fresh(&mut g)).collect(), i: g.r.below(3) },
                23 => Op::GetMove { h, i: idx(&mut g) },
                24 => Op::ForRebind { h },
                26 => Op::IndexGot { h, i: idx(&mut g) },
                27 => match elem.literals() {
                    Some(l) if len <= 30 => Op::LoopLit { h, n: g.r.below(4), lits: l.iter().map(|x| x.1.clone()).collect() },
                    _ => Op::IndexGot { h, i: idx(&mut g) },
                },
                25 => {
                    let b = *g.r.pick(&filled);
                    let tot = len + m.heap.lists[m.slots[b].unwrap()].len() as u64;
                    if tot > 40 { Op::Len { h } } else { Op::PlusAssign { a: h, b, dst: any(&mut g) } }
                }
                22 => {
                    // prefer an alias slot that holds the same list
                    let same: Vec<usize> = (0..nslots).filter(|&s| s != h && m.slots[s] == m.slots[h]).collect();
                    let alias = if !same.is_empty() && g.r.chance(3, 4) { *g.r.pick(&same) } else { any(&mut g) };
                    if alias == h { Op::Len { h } } else { Op::IterConsume { h, alias, k: g.r.below(len + 2), partial: g.r.chance(1, 2) } }
                }
                21 => {
                    if len > 30 { Op::Len { h } } else { Op::IterWithPush { h, k: g.r.below(len + 2), v: fresh(&mut g) } }
                }
                _ => Op::ForFind { h, v: known(&mut g) },
            }
        };
        let mut origin = if g.r.chance(1, 2) { Origin::Script } else { Origin::Rust };
        if origin == Origin::Script && !script_ok(&op) {
            origin = Origin::Rust;
        }
        if origin == Origin::Rust && !rust_ok(&op) {
            origin = Origin::Script;
        }
        let op = match op {
            Op::Concat { a, b, dst, plus } => Op::Concat { a, b, dst, plus: plus && origin == Origin::Script },
            Op::Eq { a, b, ne } => Op::Eq { a, b, ne },
            o => o,
        };
        m.apply(&op);
        // plan the follow-up
        if g.r.chance(1, 4) || (twins && matches!(op, Op::Eq { .. }) && g.r.chance(1, 2)) {
            let target = match &op {
                Op::Eq { a, b, .. } => Some(if g.r.chance(2, 3) { *b } else { *a }),
                Op::Contains { h, .. } | Op::Index { h, .. } | Op::Get { h, .. } | Op::Len { h } | Op::ForFind { h, .. } => Some(*h),
                _ => None,
            };
            // a search that missed: sometimes the sought value is pushed and then swapped to the
            // front part of the list before the same search is repeated
            let missed: Option<MVal> = match &op {
                Op::Contains { h, v } | Op::Index { h, v } | Op::ForFind { h, v } => m.slots[*h].and_then(|id| if m.heap.index_of(id, v).is_none() { Some(v.clone()) } else { None }),
                _ => None,
            };
            if let (Some(t), Some(v), true) = (target, missed, g.r.chance(1, 2)) {
                if let Some(id) = m.slots[t] {
                    let len = m.heap.lists[id].len() as u64;
                    if elem == ElemKind::Nested {
                        g.pool.push(v.clone());
                    }
                    followups.push_back((Op::Push { h: t, v }, if g.r.chance(1, 2) { Origin::Script } else { Origin::Rust }));
                    if len >= 1 {
                        followups.push_back((Op::Swap { h: t, i: len, j: g.r.below(len) }, if g.r.chance(1, 2) { Origin::Script } else { Origin::Rust }));
                    }
                    followups.push_back((op.clone(), origin.clone()));
                }
            } else if let Some(t) = target {
                if let Some(id) = m.slots[t] {
                    let len = m.heap.lists[id].len() as u64;
                    // lists of lists: the change may also happen *inside* an element, through the
                    // inner list's own handle - the outer list itself does not change at all
                    let inner_refs: Vec<usize> = m.heap.lists[id].iter().filter_map(|v| if let MVal::Ref(r) = v { Some(*r) } else { None }).filter(|r| *r < n_inner).collect();
                    let mutation = if elem == ElemKind::Nested && !inner_refs.is_empty() && g.r.chance(if twins { 3 } else { 1 }, if twins { 4 } else { 2 }) {
                        g.next_val += 1;
                        Op::InnerPush { inner: *g.r.pick(&inner_refs), v: 100 + g.next_val }
                    } else if len >= 2 && g.r.chance(2, 3) {
                        let i = g.r.below(len);
                        let j = (i + 1 + g.r.below(len - 1)) % len;
                        Op::Swap { h: t, i, j }
                    } else {
                        Op::Push { h: t, v: fresh(&mut g) }
                    };
                    let mo = if g.r.chance(1, 2) { Origin::Script } else { Origin::Rust };
                    followups.push_back((mutation, mo));
                    followups.push_back((op.clone(), origin.clone()));
                }
            }
        }
        ops.push((op, origin));
    }
    let mut fl = Vec::new();
    if faults {
        // pick 1-2 operations whose n-th element clone / eq panics. Only Rust-API paths that
        // do not go through an `extern "C"` vtable function can unwind: get, to_vec, into_iter
        // (element clone) and == (element eq).
        let mut fr = Rng::new(rng::derive(run_seed, &[rng::label("faults")]));
        let clone_sites: Vec<usize> = (0..ops.len())
            .filter(|&k| ops[k].1 == Origin::Rust && matches!(ops[k].0, Op::Get { .. } | Op::ToVec { .. } | Op::Iter { .. } | Op::Debug { .. }))
            .collect();
        let eq_sites: Vec<usize> = (0..ops.len()).filter(|&k| ops[k].1 == Origin::Rust && matches!(ops[k].0, Op::Eq { .. })).collect();
        for _ in 0..1 + fr.below(2) {
            let nth = fr.below(4) as i64;
            if fr.chance(2, 3) && !clone_sites.is_empty() {
                fl.push(Fault::ClonePanic { thread: 0, at: *fr.pick(&clone_sites), nth });
            } else if !eq_sites.is_empty() {
                fl.push(Fault::EqPanic { thread: 0, at: *fr.pick(&eq_sites), nth });
            }
        }
    }
    ListDesc {
        property: "C15".into(),
        scenario: if faults { "list-seq-faults".into() } else { "list-seq".into() },
        run_seed,
        elem,
        strategy: "uniform".into(),
        sched_seed: rng::derive(run_seed, &[rng::label("schedule")]),
        init: vec![],
        inner_init,
        threads: vec![ThreadPlan { slots: vec![None; nslots], ops }],
        faults: fl,
        by_ref: false,
        script_made: vec![],
        fine: None,
        fine_atomic: None,
        schedule: None,
    }
}

// ------------------------------------------------------------------ execution

pub fn execute(d: &ListDesc, w: &Arc<Warm>, keep_trace: bool) -> RunResult {
    match d.elem {
        ElemKind::U8 => exec_t::<u8>(d, w, keep_trace),
        ElemKind::U64 => exec_t::<u64>(d, w, keep_trace),
        ElemKind::Str => exec_t::<RotoString>(d, w, keep_trace),
        ElemKind::T24 => exec_t::<Val<T24>>(d, w, keep_trace),
        ElemKind::Zst => exec_t::<Val<Zst>>(d, w, keep_trace),
        ElemKind::Nested => exec_t::<List<u64>>(d, w, keep_trace),
        ElemKind::Big => exec_t::<Val<Big>>(d, w, keep_trace),
        ElemKind::F64 => exec_t::<f64>(d, w, keep_trace),
        ElemKind::U32 => exec_t::<u32>(d, w, keep_trace),
        ElemKind::OptU64 => exec_t::<Option<u64>>(d, w, keep_trace),
        ElemKind::OptStr => exec_t::<Option<RotoString>>(d, w, keep_trace),
        ElemKind::UnitTy => exec_t::<()>(d, w, keep_trace),
    }
}

fn lop_of(op: &Op, ids: &[Option<usize>]) -> Option<LOp> {
    let id = |s: &usize| ids.get(*s).copied().flatten();
    Some(match op {
        Op::Push { h, v } => LOp::Push { l: id(h)?, v: v.clone() },
        Op::Get { h, i } | Op::GetMove { h, i } => LOp::Get { l: id(h)?, i: *i },
        Op::Len { h } => LOp::Len { l: id(h)? },
        Op::IsEmpty { h } => LOp::IsEmpty { l: id(h)? },
        Op::Cap { h } => LOp::Cap { l: id(h)? },
        Op::Swap { h, i, j } => LOp::Swap { l: id(h)?, i: *i, j: *j },
        Op::Contains { h, v } => LOp::Contains { l: id(h)?, v: v.clone() },
        Op::Index { h, v } => LOp::Index { l: id(h)?, v: v.clone() },
        Op::PushMany { h, vals } => LOp::PushSeq { l: id(h)?, vals: vals.clone() },
        Op::ToVec { h } => LOp::ReadAll { l: id(h)? },
        Op::Iter { h } => LOp::IterVals { l: id(h)? },
        Op::Concat { a, b, dst: None, .. } => LOp::Concat { a: id(a)?, b: id(b)? },
        Op::Eq { a, b, ne } => LOp::Eq { a: id(a)?, b: id(b)?, ne: *ne },
        Op::ForCount { h } => LOp::ForCount { l: id(h)? },
        Op::ForSum { h } => LOp::ForSum { l: id(h)? },
        Op::Join { h, sep } => LOp::Join { l: id(h)?, sep: sep.clone() },
        Op::CloneH { .. } | Op::DropH { .. } => LOp::Nop,
        _ => return None,
    })
}

pub fn op_label(op: &Op, origin: &Origin) -> String {
    let name = match op {
        Op::New { .. } => "new",
        Op::FromVec { .. } => "from_vec",
        Op::FromVecScript { .. } => "new-and-pushes",
        Op::Lit3 { .. } => "literal",
        Op::Lit9 { .. } => "literal9",
        Op::BranchLit { .. } => "branch-literal",
        Op::TmpGet { .. } => "get-on-temporary",
        Op::IterConsume { .. } => "consuming-into_iter",
        Op::GetMove { .. } => "get-moving-handle",
        Op::ForRebind { .. } => "for-rebinding-list",
        Op::PlusAssign { .. } => "+=",
        Op::IterWithPush { .. } => "into_iter-with-push",
        Op::CloneH { .. } => "clone",
        Op::DropH { .. } => "drop",
        Op::Push { .. } => "push",
        Op::Get { .. } => "get",
        Op::Len { .. } => "len",
        Op::IsEmpty { .. } => "is_empty",
        Op::Cap { .. } => "capacity",
        Op::Swap { .. } => "swap",
        Op::Contains { .. } => "contains",
        Op::Index { .. } => "index",
        Op::Concat { plus: true, .. } => "+",
        Op::Concat { .. } => "concat",
        Op::Eq { ne: true, .. } => "!=",
        Op::Eq { .. } => "==",
        Op::ToVec { .. } => "to_vec",
        Op::Iter { .. } => "into_iter",
        Op::Debug { .. } => "debug",
        Op::Join { .. } => "join",
        Op::ForCount { .. } => "for",
        Op::ForSum { .. } => "for-sum",
        Op::ForPush { .. } => "for-push",
        Op::InnerPush { .. } => "inner-push",
        Op::ForFind { .. } => "for-find",
        Op::IndexGot { .. } => "index-of-got-element",
        Op::PushMany { .. } => "five-pushes",
        Op::LitTry { .. } => "literal-with-early-exit",
        Op::LoopLit { .. } => "literals-in-loops",
    };
    format!("{}:{}", if *origin == Origin::Script { "script" } else { "rust" }, name)
}

fn exec_t<E: Elem + WarmSel + std::fmt::Debug>(d: &ListDesc, w: &Arc<Warm>, keep_trace: bool) -> RunResult
where
    E::Transformed: PartialEq,
{
    let _mg = alloc::ModeGuard::new(alloc::MODE_PLAIN);
    tracked::reset();
    let sequential = d.property == "C15";
    let mut res = RunResult::default();

    let fns = E::fns(w);
    // ---- setup (allocations of the code under test: RUN mode)
    let mut inner = Inner::default();
    let mut shared: Vec<List<E>> = Vec::new();
    let mut heap0 = Heap::default();
    {
        let _rg = alloc::ModeGuard::new(alloc::MODE_RUN);
        {
            for (k, v) in d.inner_init.iter().enumerate() {
                let l = List::<u64>::new();
                for x in v {
                    if let MVal::Int(x) = x {
                        l.push(*x);
                    }
                }
                inner.lists.push((k, l));
                if let Some(MVal::Int(tag)) = v.first() {
                    inner.tags.push((k, *tag));
                }
                heap0.new_list(v.clone());
            }
        }
        for (i, v) in d.init.iter().enumerate() {
            let l = if !sequential && d.script_made.get(i).copied().unwrap_or(false) {
                let l = fns.new.call();
                for x in v {
                    fns.push.call(l.clone(), E::from_m(x, &inner));
                }
                l
            } else {
                let l = List::<E>::new();
                for x in v {
                    l.push(E::from_m(x, &inner));
                }
                l
            };
            shared.push(l);
            heap0.new_list(v.clone());
        }
    }
    let st0 = alloc_stats();
    let fine0 = (sched::FINE_FIRED.load(std::sync::atomic::Ordering::SeqCst), sched::FINE_STEPS.load(std::sync::atomic::Ordering::SeqCst));
    // model ids of the shared lists follow those of the inner lists
    let id_base = d.inner_init.len();
    let history: Arc<Mutex<Vec<Event>>> = Arc::new(Mutex::new(Vec::new()));
    let seq_log: Arc<Mutex<Vec<serde_json::Value>>> = Arc::new(Mutex::new(Vec::new()));
    let mut bodies: Vec<sched::Body> = Vec::new();
    for (t, plan) in d.threads.iter().enumerate() {
        let plan = plan.clone();
        let by_ref = d.by_ref && !sequential;
        let slots: Vec<Option<List<E>>> = {
            let _rg = alloc::ModeGuard::new(alloc::MODE_RUN);
            if by_ref {
                // SAFETY: bitwise copies of the harness's handles, marked `borrowed` below and
                // therefore never dropped: the threads use the very same handle objects
                plan.slots.iter().map(|s| s.map(|i| unsafe { std::ptr::read(&shared[i]) })).collect()
            } else {
                plan.slots.iter().map(|s| s.map(|i| shared[i].clone())).collect()
            }
        };
        let borrowed: Vec<bool> = plan.slots.iter().map(|s| by_ref && s.is_some()).collect();
        let ids: Vec<Option<usize>> = plan.slots.iter().map(|s| s.map(|i| i + id_base)).collect();
        let mut ex = Exec::<E> {
            slots,
            fns: fns.clone(),
            sum_u64: if E::KIND == ElemKind::U64 { Some(w.sum_u64.clone()) } else { None },
            join_str: if E::KIND == ElemKind::Str { Some(w.join_str.clone()) } else { None },
            inner: inner.clone(),
            catch: !d.faults.is_empty(),
            borrowed,
        };
        let hist = history.clone();
        let faults = d.faults.clone();
        let heap_init = heap0.clone();
        let seq_log = seq_log.clone();
        let nslots = plan.slots.len();
        let fine = if sequential { None } else { d.fine };
        let fine_atomic = d.fine_atomic;
        bodies.push(Box::new(move || {
            let mut ids = ids;
            // sequential model, stepped operation by operation (C15)
            let mut m = SeqModel { heap: heap_init, slots: vec![None; nslots] };
            let mut poisoned_after_panic = false;
            for (k, (op, origin)) in plan.ops.iter().enumerate() {
                {
                    let _pg = alloc::ModeGuard::new(alloc::MODE_PLAIN);
                    sched::set_label(&op_label(op, origin));
                    for f in &faults {
                        match f {
                            Fault::ClonePanic { thread, at, nth } if *thread == t && *at == k && *origin == Origin::Rust && matches!(op, Op::Get { .. } | Op::ToVec { .. } | Op::Iter { .. } | Op::Debug { .. }) => tracked::arm_clone_panic(*nth),
                            Fault::EqPanic { thread, at, nth } if *thread == t && *at == k && *origin == Origin::Rust && matches!(op, Op::Eq { .. }) => tracked::arm_eq_panic(*nth),
                            _ => {}
                        }
                    }
                }
                let inv = sched::stamp();
                let obs = match fine {
                    Some((ft, fi, fk)) if ft == t && fi == k => match fine_atomic {
                        Some(j) => sched::fine_window_atomic(j, || ex.exec(op, origin)),
                        None => sched::fine_window(fk, || ex.exec(op, origin)),
                    },
                    _ => ex.exec(op, origin),
                };
                let ret = sched::stamp();
                let _pg = alloc::ModeGuard::new(alloc::MODE_PLAIN);
                let (fired_c, fired_e) = tracked::disarm();
                if sequential {
                    if obs == Obs::Panicked {
                        // relaxed oracle under an injected panic: the operation may fail; afterwards
                        // the lists involved may be poisoned (legal) - stop comparing results, keep
                        // the accounting (no leak, no double drop) for the end of the run.
                        poisoned_after_panic = true;
                        seq_log.lock().unwrap().push(serde_json::json!({"k": k, "panicked": true, "clone_fired": fired_c, "eq_fired": fired_e}));
                        break;
                    }
                    check_seq::<E>(k, op, origin, &obs, &mut m, &mut ex, &seq_log);
                    if viol::any() {
                        break;
                    }
                } else {
                    let lop = match op {
                        Op::CloneH { .. } | Op::DropH { .. } => Some(LOp::Nop),
                        _ => lop_of(op, &ids),
                    };
                    match op {
                        Op::CloneH { src, dst } => ids[*dst] = ids[*src],
                        Op::DropH { h } | Op::GetMove { h, .. } => ids[*h] = None,
                        _ => {}
                    }
                    if let Some(lop) = lop {
                        hist.lock().unwrap().push(Event { tid: t, inv, ret, op: lop, obs });
                    }
                }
            }
            let _ = poisoned_after_panic;
            sched::set_label("thread-exit: dropping handles");
            let _rg = alloc::ModeGuard::new(alloc::MODE_RUN);
            drop(ex);
        }));
    }

    // In concurrent runs the harness keeps no handle of its own: a list lives exactly as long as
    // the threads' handles (the last one may go away while another thread is inside a script
    // call that owns its own clone).
    if !sequential && !d.by_ref {
        let _rg = alloc::ModeGuard::new(alloc::MODE_RUN);
        shared.clear();
    }
    let strategy = Strategy::parse(&d.strategy).unwrap_or(Strategy::Uniform);
    let out = sched::run_sim(
        SimCfg {
            seed: d.sched_seed,
            strategy,
            replay: d.schedule.clone(),
            step_cap: 200_000,
            keep_trace,
        },
        bodies,
    );

    // ---- teardown: the last handles go away, everything must be released
    {
        let _rg = alloc::ModeGuard::new(alloc::MODE_RUN);
        drop(shared);
        drop(inner);
    }
    let live = tracked::live_count();
    if live != 0 {
        viol::record("leak", format!("{live} tracked element(s) still alive after every list was dropped: {:?}", tracked::live_by_payload()));
    }
    if tracked::zst_live() != 0 {
        viol::record("leak", format!("zero-sized tracked elements: live count {} after every list was dropped", tracked::zst_live()));
    }
    let ar = alloc::end_run_check();

    // ---- linearizability (C16)
    let events = std::mem::take(&mut *history.lock().unwrap());
    let mut lin_states = 0;
    if !sequential && !viol::any() {
        let lr = model::linearizable(&heap0, &events, 600_000);
        lin_states = lr.states;
        if lr.gave_up {
            res.counters.insert("lin_gave_up".into(), 1);
        } else if !lr.ok {
            viol::record("not-linearizable", format!("no order of the atomic steps explains the observed results: {}", brief_history(&events)));
        }
    }
    res.violations = viol::take();
    res.steps = out.steps;
    res.trace_hash = out.trace_hash;
    res.sig_hash = out.sig_hash;
    res.preemptions = out.preemptions;
    res.decisions = out.decisions.clone();
    let c = &mut res.counters;
    c.insert("runs".into(), 1);
    c.insert("steps".into(), out.steps);
    c.insert("switches".into(), out.switches);
    c.insert("preemptions".into(), out.preemptions);
    c.insert("preempt_after_release".into(), out.preempt_after_rel);
    c.insert("lock_contended".into(), out.contended);
    c.insert(format!("elem_{}", d.elem.suffix()), 1);
    c.insert("runs_sharing_handles_by_reference".into(), d.by_ref as u64);
    c.insert(format!("strategy_{}", d.strategy.split('/').next().unwrap_or("")), 1);
    c.insert("ops".into(), d.threads.iter().map(|t| t.ops.len() as u64).sum());
    for t in &d.threads {
        for (op, origin) in &t.ops {
            *c.entry(format!("op_{}", op_label(op, origin))).or_insert(0) += 1;
        }
    }
    c.insert("lin_states".into(), lin_states);
    if !sequential {
        c.insert("fine_window_configured".into(), d.fine.is_some() as u64);
        c.insert("fine_window_preemptions_fired".into(), sched::FINE_FIRED.load(std::sync::atomic::Ordering::SeqCst) - fine0.0);
        c.insert("fine_window_instructions_stepped".into(), sched::FINE_STEPS.load(std::sync::atomic::Ordering::SeqCst) - fine0.1);
    }
    c.insert("arena_live_blocks_at_end".into(), ar.live_blocks as u64);
    let st1 = alloc_stats();
    c.insert("realloc_moves".into(), st1.0 - st0.0);
    c.insert("quarantined_blocks".into(), st1.1 - st0.1);
    c.insert("run_allocations".into(), st1.2 - st0.2);
    for (s, n) in &out.sites {
        c.insert(format!("site_{s}"), *n);
    }
    if !d.faults.is_empty() {
        c.insert("fault_configured".into(), d.faults.len() as u64);
    }
    for v in seq_log.lock().unwrap().iter() {
        if v.get("panicked").is_some() {
            *c.entry("fault_fired_panic".into()).or_insert(0) += 1;
        }
    }
    res.extra = if sequential {
        serde_json::json!({ "log": *seq_log.lock().unwrap() })
    } else {
        serde_json::json!({ "history": events })
    };
    if keep_trace {
        res.trace = out.trace.iter().map(|(t, k, o)| format!("t{t} {} {o}", kind_name(*k))).collect();
    }
    res
}

fn alloc_stats() -> (u64, u64, u64) {
    use std::sync::atomic::Ordering::Relaxed;
    (alloc::ST_REALLOC_MOVES.load(Relaxed), alloc::ST_QUAR_BLOCKS.load(Relaxed), alloc::ST_RUN_ALLOCS.load(Relaxed))
}

pub fn kind_name(k: u8) -> &'static str {
    match k {
        sched::K_ACQ => "acq",
        sched::K_REL => "rel",
        sched::K_BLOCKED => "blocked",
        sched::K_POINT => "point",
        sched::K_END => "end",
        sched::K_START => "start",
        sched::K_FINE => "fine-preempt",
        _ => "?",
    }
}

fn brief_history(ev: &[Event]) -> String {
    let mut s = String::new();
    for e in ev {
        s.push_str(&format!("[t{} {}..{} {:?} -> {:?}] ", e.tid, e.inv, e.ret, e.op, e.obs));
    }
    s
}

/// expected multiset of live tracked payloads = all `Obj` elements of reachable lists
fn expected_live(m: &SeqModel) -> (BTreeMap<u64, usize>, i64) {
    let mut reach: Vec<usize> = m.slots.iter().flatten().copied().collect();
    reach.sort();
    reach.dedup();
    let mut objs = BTreeMap::new();
    let mut units = 0i64;
    for l in reach {
        for v in &m.heap.lists[l] {
            match v {
                MVal::Obj(p) => *objs.entry(*p).or_insert(0) += 1,
                MVal::Unit => units += 1,
                _ => {}
            }
        }
    }
    (objs, units)
}

fn ref_equiv(heap: &Heap, a: &MVal, b: &MVal) -> bool {
    match (a, b) {
        (MVal::Ref(x), MVal::Ref(y)) => heap.list_eq(*x, *y),
        _ => a == b,
    }
}

fn check_seq<E: Elem + std::fmt::Debug>(
    k: usize,
    op: &Op,
    origin: &Origin,
    obs: &Obs,
    m: &mut SeqModel,
    ex: &mut Exec<E>,
    log: &Arc<Mutex<Vec<serde_json::Value>>>,
) where
    E::Transformed: PartialEq,
{
    let exp = m.apply(op);
    let lbl = op_label(op, origin);
    let ok = match (op, &exp, obs) {
        (Op::Cap { h }, Obs::Num(len), Obs::Num(c)) => {
            let _ = h;
            // (the growth policy is not part of the oracle - not even "unbounded" for zero-sized
            // elements: the property asks for the results of a shared vector, and every capacity
            // that is at least the length is one a vector may report)
            c >= len
        }
        (Op::Debug { h }, _, Obs::Text(t)) => {
            // expected text: the same element formatting applied to the model's contents
            let id = m.lid(*h);
            match id {
                Some(id) => {
                    let v: Vec<E> = {
                        let _rg = alloc::ModeGuard::new(alloc::MODE_PLAIN);
                        m.heap.lists[id].iter().map(|x| E::from_m(x, &ex.inner)).collect()
                    };
                    // `Debug` is not one of the operations the property lists: its exact format is
                    // free. It must show the elements, in order (and is exercised because it reads
                    // the whole list under the lock).
                    let mut rest: &str = t.as_str();
                    v.iter().all(|x| {
                        let d = x.debug();
                        match rest.find(&d) {
                            Some(p) => {
                                rest = &rest[p + d.len()..];
                                true
                            }
                            None => false,
                        }
                    })
                }
                None => false,
            }
        }
        // histories with twins: a nested list read back is named by its tag and its contents, and
        // two twins with equal contents are interchangeable
        (_, Obs::Vals(a), Obs::Vals(b)) if E::KIND == ElemKind::Nested => a.len() == b.len() && a.iter().zip(b.iter()).all(|(x, y)| ref_equiv(&m.heap, x, y)),
        (_, Obs::OptVal(Some(a)), Obs::OptVal(Some(b))) if E::KIND == ElemKind::Nested => ref_equiv(&m.heap, a, b),
        _ => exp == *obs,
    };
    if !ok {
        viol::record(
            "model-mismatch",
            format!("op #{k} {lbl} {op:?}: the shared-vector model gives {exp:?}, the list gave {obs:?}"),
        );
        return;
    }
    // nested lists returned by this operation must be aliases: their contents equal the model's *current* contents
    for (id, contents) in &ex.inner.seen {
        let want: Vec<u64> = m.heap.lists[*id].iter().map(|v| if let MVal::Int(x) = v { *x } else { 0 }).collect();
        if *contents != want {
            viol::record(
                "model-mismatch",
                format!("op #{k} {lbl}: nested list {id} returned with contents {contents:?}, the model (alias semantics) has {want:?}"),
            );
            return;
        }
    }
    // element accounting after every operation
    let (objs, units) = expected_live(m);
    let live = tracked::live_by_payload();
    if live != objs {
        viol::record(
            "accounting",
            format!("after op #{k} {lbl} {op:?}: live tracked elements (payload -> count) are {live:?}, the model holds {objs:?}"),
        );
        return;
    }
    if E::KIND == ElemKind::Zst && tracked::zst_live() != units {
        viol::record(
            "accounting",
            format!("after op #{k} {lbl} {op:?}: {} zero-sized tracked elements are alive, the model holds {units}", tracked::zst_live()),
        );
        return;
    }
    let mut g = log.lock().unwrap();
    if g.len() < 80 {
        g.push(serde_json::json!({"k": k, "op": lbl, "obs": format!("{obs:?}")}));
    }
}

// ------------------------------------------------------------------ minimisation

/// One-step simplifications of a run description, simplest first.
pub fn shrink(d: &ListDesc) -> Vec<ListDesc> {
    let mut out = Vec::new();
    // without the instruction-level window
    if d.fine.is_some() {
        let mut c = d.clone();
        c.fine = None;
        c.fine_atomic = None;
        out.push(c);
    }
    let sched = d.schedule.clone().unwrap_or_default();
    // drop a whole thread
    if d.threads.len() > 1 {
        for t in 0..d.threads.len() {
            let mut c = d.clone();
            c.threads.remove(t);
            c.faults.retain(|f| match f {
                Fault::ClonePanic { thread, .. } | Fault::EqPanic { thread, .. } => *thread != t,
            });
            c.fine = match c.fine {
                Some((ft, _, _)) if ft == t => None,
                Some((ft, fi, fk)) if ft > t => Some((ft - 1, fi, fk)),
                x => x,
            };
            let s: Vec<u8> = sched.iter().filter(|&&x| x as usize != t).map(|&x| if x as usize > t { x - 1 } else { x }).collect();
            c.schedule = Some(s);
            out.push(c);
        }
    }
    // drop the tail half of a thread's operations, then single operations
    for t in 0..d.threads.len() {
        let n = d.threads[t].ops.len();
        if n > 3 {
            let mut c = d.clone();
            c.threads[t].ops.truncate(n / 2);
            if matches!(c.fine, Some((ft, fi, _)) if ft == t && fi >= n / 2) {
                c.fine = None;
            }
            c.faults.retain(|f| match f {
                Fault::ClonePanic { thread, at, .. } | Fault::EqPanic { thread, at, .. } => !(*thread == t && *at >= n / 2),
            });
            out.push(c);
        }
        for k in (0..n).rev() {
            let mut c = d.clone();
            c.threads[t].ops.remove(k);
            c.fine = match c.fine {
                Some((ft, fi, _)) if ft == t && fi == k => None,
                Some((ft, fi, fk)) if ft == t && fi > k => Some((ft, fi - 1, fk)),
                x => x,
            };
            let mut ok = true;
            for f in c.faults.iter_mut() {
                match f {
                    Fault::ClonePanic { thread, at, .. } | Fault::EqPanic { thread, at, .. } if *thread == t => {
                        if *at == k {
                            ok = false;
                        } else if *at > k {
                            *at -= 1;
                        }
                    }
                    _ => {}
                }
            }
            if ok {
                out.push(c);
            }
        }
    }
    // drop a fault
    for k in 0..d.faults.len() {
        let mut c = d.clone();
        c.faults.remove(k);
        out.push(c);
    }
    // shorter initial lists
    for l in 0..d.init.len() {
        if !d.init[l].is_empty() {
            let mut c = d.clone();
            c.init[l].pop();
            out.push(c);
        }
    }
    // script origin -> Rust origin where both exist
    for t in 0..d.threads.len() {
        for k in 0..d.threads[t].ops.len() {
            let (op, origin) = &d.threads[t].ops[k];
            if *origin == Origin::Script && !matches!(op, Op::Join { .. } | Op::ForCount { .. } | Op::ForSum { .. } | Op::ForPush { .. } | Op::ForFind { .. } | Op::Concat { plus: true, .. } | Op::Eq { ne: true, .. } | Op::Lit3 { .. } | Op::Lit9 { .. } | Op::BranchLit { .. } | Op::TmpGet { .. } | Op::GetMove { .. } | Op::ForRebind { .. } | Op::PlusAssign { .. } | Op::FromVecScript { .. } | Op::LoopLit { .. } | Op::LitTry { .. }) {
                let mut c = d.clone();
                c.threads[t].ops[k].1 = Origin::Rust;
                out.push(c);
            }
        }
    }
    // schedule: fewer context switches
    if !sched.is_empty() {
        let mut c = d.clone();
        c.schedule = Some(sched[..sched.len() / 2].to_vec());
        out.push(c);
        let mut c = d.clone();
        c.schedule = Some(sched[..sched.len() - 1].to_vec());
        out.push(c);
        for i in 1..sched.len() {
            if sched[i] != sched[i - 1] {
                let mut c = d.clone();
                let mut s = sched.clone();
                s[i] = s[i - 1];
                c.schedule = Some(s);
                out.push(c);
            }
        }
    }
    out
}

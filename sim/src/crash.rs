//! Crash reporter: a call into freed machine code is a SIGSEGV, a panic
//! inside a built-in crosses `extern "C"` and aborts. Both are first-class
//! outcomes here, so the handler writes what it knows into the shared region
//! and `_exit`s.

use crate::{alloc, shm};
use std::sync::atomic::Ordering::Relaxed;

pub const EXIT_CRASH: i32 = 71;

extern "C" fn handler(sig: libc::c_int, info: *mut libc::siginfo_t, uctx: *mut libc::c_void) {
    // SAFETY: only async-signal-safe operations: memory reads/writes and _exit
    unsafe {
        if let Some(h) = shm::current() {
            h.crash_sig = sig as u64;
            let addr = if info.is_null() { 0 } else { (*info).si_addr() as usize };
            h.crash_addr = addr as u64;
            h.crash_code = if info.is_null() { 0 } else { (*info).si_code as u64 };
            h.crash_step = alloc::CUR_STEP.load(Relaxed);
            h.crash_attr_kind = 0;
            if let Some((module, state, freed_step)) = alloc::attribute(addr) {
                h.crash_attr_kind = 1;
                h.crash_attr_module = module as u64;
                h.crash_attr_state = state as u64;
                h.crash_attr_freed_step = freed_step;
            } else if let Some((freed, size, seq)) = alloc::arena_block_of(addr) {
                h.crash_attr_kind = 2;
                h.crash_attr_state = freed as u64;
                h.crash_attr_module = size as u64;
                h.crash_attr_freed_step = seq;
            }
            #[cfg(target_arch = "x86_64")]
            if !uctx.is_null() {
                let uc = &*(uctx as *const libc::ucontext_t);
                h.crash_ip = uc.uc_mcontext.gregs[libc::REG_RIP as usize] as u64;
                for r in 0..16usize {
                    let v = uc.uc_mcontext.gregs[r] as u64;
                    // a register that holds (an offset from) the poison word
                    let hi = v >> 16;
                    if hi == 0xDDDD_DDDD_DDDD || hi == 0xCDCD_CDCD_CDCD {
                        h.crash_poison_reg = v;
                        if h.crash_attr_kind == 0 {
                            h.crash_attr_kind = 3;
                        }
                        break;
                    }
                }
                if h.crash_attr_kind == 0 {
                    // executing freed code: the instruction pointer itself is the fault address
                    if let Some((module, state, freed_step)) = alloc::attribute(h.crash_ip as usize) {
                        h.crash_attr_kind = 1;
                        h.crash_attr_module = module as u64;
                        h.crash_attr_state = state as u64;
                        h.crash_attr_freed_step = freed_step;
                    }
                }
            }
            let _ = uctx;
        }
        libc::_exit(EXIT_CRASH);
    }
}

pub fn install() {
    // SAFETY: installing signal handlers with an alternate stack for this thread
    unsafe {
        let mut sa: libc::sigaction = std::mem::zeroed();
        sa.sa_sigaction = handler as *const () as usize;
        sa.sa_flags = libc::SA_SIGINFO | libc::SA_ONSTACK | libc::SA_NODEFER;
        libc::sigemptyset(&mut sa.sa_mask);
        for s in [libc::SIGSEGV, libc::SIGBUS, libc::SIGILL, libc::SIGFPE, libc::SIGABRT, libc::SIGTRAP] {
            libc::sigaction(s, &sa, std::ptr::null_mut());
        }
    }
    std::panic::set_hook(Box::new(|info| {
        let _mg = alloc::ModeGuard::new(alloc::MODE_PLAIN);
        let msg = info.to_string();
        shm::record_panic(&msg);
    }));
}

pub fn sig_name(sig: u64) -> &'static str {
    match sig as i32 {
        libc::SIGSEGV => "SIGSEGV",
        libc::SIGBUS => "SIGBUS",
        libc::SIGILL => "SIGILL",
        libc::SIGFPE => "SIGFPE",
        libc::SIGABRT => "SIGABRT",
        libc::SIGTRAP => "SIGTRAP",
        libc::SIGKILL => "SIGKILL",
        _ => "signal",
    }
}

/// Human-readable description of the crash record in `h`.
pub fn describe(h: &shm::Header) -> (String, String) {
    let sig = sig_name(h.crash_sig);
    let class;
    let mut d = format!("{sig} at address {:#x} (ip {:#x}) at scheduler step {}", h.crash_addr, h.crash_ip, h.crash_step);
    match h.crash_attr_kind {
        1 => {
            let st = if h.crash_attr_state as usize == alloc::PG_FREED { "freed" } else { "live" };
            d.push_str(&format!(
                "; address lies in {st} JIT page block of module m{} (freed at step {})",
                h.crash_attr_module as i64 as i32, h.crash_attr_freed_step
            ));
            class = if st == "freed" { "freed-code-executed" } else { "crash" };
        }
        2 => {
            let st = if h.crash_attr_state != 0 { "freed" } else { "live" };
            d.push_str(&format!("; address lies in a {st} arena block of {} bytes", h.crash_attr_module));
            class = "crash";
        }
        3 => {
            d.push_str(&format!("; a register holds the poison word {:#x}: a pointer was read from freed or never-written memory", h.crash_poison_reg));
            class = "stale-read";
        }
        _ => {
            class = if h.crash_sig as i32 == libc::SIGABRT { "abort" } else { "crash" };
        }
    }
    if h.panic_len > 0 {
        let n = (h.panic_len as usize).min(shm::PANIC_CAP);
        d.push_str(&format!("; last panic: {}", String::from_utf8_lossy(&h.panic_msg[..n]).replace('\n', " ")));
    }
    (class.to_string(), d)
}

//! Allocator seam (DESIGN §2.2, Appendix B).
//!
//! Every allocation of the process carries a 32-byte header in front of the
//! user block and a 16-byte canary behind it. What happens beyond that
//! depends on the *mode* of the allocating/freeing thread:
//!
//! * `PLAIN`   – harness bookkeeping: System allocator, no fill.
//! * `RUN`     – code under test: blocks come from a bump arena that is never
//!               reused inside one child process (so address order equals
//!               allocation order, whatever ran before), fresh memory is
//!               `0xCD`, `realloc` always moves, freed memory is `0xDD` and
//!               stays quarantined; page-aligned blocks (JIT pages) are
//!               `PROT_NONE` once freed.
//! * `COMPILE` – inside `compile()`: System allocator (temporary memory is
//!               recycled), still header/canary/layout checked, page-aligned
//!               blocks still go to the arena and are attributed to the module
//!               being compiled.

use std::alloc::{GlobalAlloc, Layout, System};
use std::cell::Cell;
use std::sync::atomic::{AtomicU32, AtomicU64, AtomicUsize, Ordering::*};

pub const MODE_PLAIN: u8 = 0;
pub const MODE_RUN: u8 = 1;
pub const MODE_COMPILE: u8 = 2;

thread_local! {
    static MODE: Cell<u8> = const { Cell::new(0) };
    static CUR_MODULE: Cell<u32> = const { Cell::new(u32::MAX) };
}

thread_local! {
    /// a fine-grained (single-step) window is open on this thread (see sched.rs)
    pub static FINE_ON: Cell<bool> = const { Cell::new(false) };
}

pub fn set_mode(m: u8) -> u8 {
    let old = MODE.try_with(|c| c.replace(m)).unwrap_or(0);
    // harness code is not single-stepped: the trap handler turns the trap flag off when it
    // sees harness mode, and it is turned on again here when code under test resumes
    #[cfg(target_arch = "x86_64")]
    if m != MODE_PLAIN && old == MODE_PLAIN && FINE_ON.try_with(|c| c.get()).unwrap_or(false) {
        // SAFETY: sets the trap flag of this thread
        unsafe {
            core::arch::asm!("pushfq", "or qword ptr [rsp], 0x100", "popfq");
        }
    }
    old
}
pub fn mode() -> u8 {
    MODE.try_with(|c| c.get()).unwrap_or(0)
}
pub fn set_module(m: u32) -> u32 {
    CUR_MODULE.try_with(|c| c.replace(m)).unwrap_or(u32::MAX)
}

/// RAII: switch the allocator mode of this thread.
pub struct ModeGuard(u8);
impl ModeGuard {
    pub fn new(m: u8) -> Self {
        ModeGuard(set_mode(m))
    }
}
impl Drop for ModeGuard {
    fn drop(&mut self) {
        set_mode(self.0);
    }
}

const ARENA_ADDR: usize = 0x6000_0000_0000;
const ARENA_SIZE: usize = 64 << 30;
static ARENA_BASE: AtomicUsize = AtomicUsize::new(0);
static ARENA_TOP: AtomicUsize = AtomicUsize::new(0);
static RUN_START: AtomicUsize = AtomicUsize::new(0);

const LIVE: u32 = 0x4C49_5645;
const FREED: u32 = 0x4652_4545;
const F_ARENA: u32 = 1;
const F_PAGE: u32 = 2;
const F_RUN: u32 = 4;
const CANARY: u8 = 0xC7;
const CANARY_LEN: usize = 16;
pub const POISON_FREED: u8 = 0xDD;
pub const POISON_FRESH: u8 = 0xCD;
const PAGE: usize = 4096;

#[repr(C)]
struct Header {
    magic: u32,
    flags: u32,
    size: usize,
    align: usize,
    seq: u64,
}
const HDR: usize = 32;
#[repr(C)]
struct Pre {
    total: usize,
    user_off: usize,
}
const PRE: usize = 16;

static SEQ: AtomicU64 = AtomicU64::new(1);
/// Global scheduler step, maintained by the scheduler; used for attribution.
pub static CUR_STEP: AtomicU64 = AtomicU64::new(0);

// ---------------------------------------------------------------- statistics
pub static ST_REALLOC_MOVES: AtomicU64 = AtomicU64::new(0);
pub static ST_QUAR_BLOCKS: AtomicU64 = AtomicU64::new(0);
pub static ST_QUAR_BYTES: AtomicU64 = AtomicU64::new(0);
pub static ST_RUN_ALLOCS: AtomicU64 = AtomicU64::new(0);
pub static ST_PAGE_ALLOCS: AtomicU64 = AtomicU64::new(0);
pub static ST_PAGE_FREES: AtomicU64 = AtomicU64::new(0);

// ---------------------------------------------------------------- violations
pub const V_DOUBLE_FREE: u64 = 1;
pub const V_LAYOUT: u64 = 2;
pub const V_OVERRUN: u64 = 3;
pub const V_UNKNOWN_FREE: u64 = 4;
pub const V_STALE_WRITE: u64 = 5;
const NV: usize = 8;
static V_COUNT: AtomicUsize = AtomicUsize::new(0);
static V_BUF: [[AtomicU64; 4]; NV] = [const { [const { AtomicU64::new(0) }; 4] }; NV];

fn violation(code: u64, a: u64, b: u64, c: u64) {
    let i = V_COUNT.fetch_add(1, SeqCst);
    if i < NV {
        V_BUF[i][0].store(code, SeqCst);
        V_BUF[i][1].store(a, SeqCst);
        V_BUF[i][2].store(b, SeqCst);
        V_BUF[i][3].store(c, SeqCst);
    }
}

pub fn violation_name(code: u64) -> &'static str {
    match code {
        V_DOUBLE_FREE => "double-free",
        V_LAYOUT => "layout-mismatch",
        V_OVERRUN => "overrun",
        V_UNKNOWN_FREE => "free-of-unknown-pointer",
        V_STALE_WRITE => "stale-write",
        _ => "allocator-violation",
    }
}

/// Returns (and clears) violations the allocator has seen: (class, detail)
pub fn take_violations() -> Vec<(&'static str, String)> {
    let n = V_COUNT.swap(0, SeqCst).min(NV);
    let mut out = Vec::new();
    for i in 0..n {
        let code = V_BUF[i][0].load(SeqCst);
        let a = V_BUF[i][1].load(SeqCst);
        let b = V_BUF[i][2].load(SeqCst);
        let c = V_BUF[i][3].load(SeqCst);
        let d = match code {
            V_LAYOUT => format!(
                "dealloc with layout size={} align={} of a block allocated with size={} align={}",
                a >> 16,
                a & 0xffff,
                b >> 16,
                b & 0xffff
            ),
            V_OVERRUN => format!("tail canary of a {a}-byte block (align {b}) was overwritten"),
            V_DOUBLE_FREE => format!("block of {a} bytes freed twice"),
            V_STALE_WRITE => format!("freed {a}-byte block was written to after free (offset {b})"),
            _ => format!("a={a:#x} b={b:#x} c={c:#x}"),
        };
        out.push((violation_name(code), d));
    }
    out
}

// ---------------------------------------------------------------- page table
pub const PG_LIVE: usize = 1;
pub const PG_FREED: usize = 2;
pub struct PageEnt {
    pub start: AtomicUsize,
    pub len: AtomicUsize,
    pub module: AtomicU32,
    pub state: AtomicUsize,
    pub freed_step: AtomicU64,
    pub frees: AtomicU32,
    /// position in the sequence of all page-block allocations / frees of this process
    pub alloc_seq: AtomicU64,
    pub free_seq: AtomicU64,
}
static PAGE_SEQ: AtomicU64 = AtomicU64::new(1);
const NPG: usize = 4096;
pub static PAGES: [PageEnt; NPG] = [const {
    PageEnt {
        start: AtomicUsize::new(0),
        len: AtomicUsize::new(0),
        module: AtomicU32::new(0),
        state: AtomicUsize::new(0),
        freed_step: AtomicU64::new(0),
        frees: AtomicU32::new(0),
        alloc_seq: AtomicU64::new(0),
        free_seq: AtomicU64::new(0),
    }
}; NPG];
pub static NPAGES: AtomicUsize = AtomicUsize::new(0);
/// Per-run knob (swarm): freed page-aligned blocks are handed out again (LIFO, same size)
/// instead of being quarantined behind PROT_NONE. Quarantine turns every stale use into a
/// fault, but it also hides bugs that need an *address to come back* - anything keyed by the
/// address of machine code or its data section.
pub static PAGE_REUSE: std::sync::atomic::AtomicBool = std::sync::atomic::AtomicBool::new(false);
/// With `PAGE_REUSE`: of the module whose block was freed last, take the fitting block that was
/// allocated first, so that a module of the same shape gets every block back in the same role
/// (code for code, data for data). Off: the block freed last (roles cross over unless a module
/// has one block per size).
pub static PAGE_REUSE_SAME_ROLE: std::sync::atomic::AtomicBool = std::sync::atomic::AtomicBool::new(false);
pub static ST_PAGE_REUSED: AtomicU64 = AtomicU64::new(0);

const NMOD: usize = 8192;
static MOD_ALLOC: [AtomicU32; NMOD] = [const { AtomicU32::new(0) }; NMOD];
static MOD_FREE: [AtomicU32; NMOD] = [const { AtomicU32::new(0) }; NMOD];
fn mod_slot(module: u32) -> usize {
    (module as usize) % NMOD
}

/// (live blocks, freed blocks) of page-aligned memory attributed to `module`
pub fn module_pages(module: u32) -> (usize, usize) {
    let a = MOD_ALLOC[mod_slot(module)].load(SeqCst) as usize;
    let f = MOD_FREE[mod_slot(module)].load(SeqCst) as usize;
    (a.saturating_sub(f), f)
}

/// Attribute an address to a page block: (module, state, freed_step)
pub fn attribute(addr: usize) -> Option<(u32, usize, u64)> {
    let n = NPAGES.load(SeqCst).min(NPG);
    for e in &PAGES[..n] {
        let s = e.start.load(SeqCst);
        if addr >= s && addr < s + e.len.load(SeqCst) {
            return Some((
                e.module.load(SeqCst),
                e.state.load(SeqCst),
                e.freed_step.load(SeqCst),
            ));
        }
    }
    None
}

pub fn in_arena(addr: usize) -> bool {
    let b = ARENA_BASE.load(Relaxed);
    b != 0 && addr >= b && addr < b + ARENA_SIZE
}

/// For the crash reporter: describe a non-page arena address (signal safe:
/// reads memory only).
pub fn arena_block_of(addr: usize) -> Option<(bool, usize, u64)> {
    let base = ARENA_BASE.load(Relaxed);
    let top = ARENA_TOP.load(Relaxed);
    if base == 0 || addr < base || addr >= top {
        return None;
    }
    let mut p = base;
    // SAFETY: walks block pre-headers written by `arena_alloc`.
    unsafe {
        while p < top {
            let pre = &*(p as *const Pre);
            if pre.total == 0 {
                return None;
            }
            if addr < p + pre.total {
                let h = &*((p + pre.user_off - HDR) as *const Header);
                return Some((h.magic == FREED, h.size, h.seq));
            }
            p += pre.total;
        }
    }
    None
}

// ---------------------------------------------------------------- arena
fn arena_init() -> usize {
    let b = ARENA_BASE.load(Acquire);
    if b != 0 {
        return b;
    }
    // SAFETY: plain anonymous mapping.
    let p = unsafe {
        libc::mmap(
            ARENA_ADDR as *mut _,
            ARENA_SIZE,
            libc::PROT_READ | libc::PROT_WRITE,
            libc::MAP_PRIVATE | libc::MAP_ANONYMOUS | libc::MAP_NORESERVE | libc::MAP_FIXED_NOREPLACE,
            -1,
            0,
        )
    };
    if p == libc::MAP_FAILED || p as usize != ARENA_ADDR {
        // cannot happen with ASLR off and a 47-bit address space; treat as fatal harness error
        let msg = b"verif-sim: cannot map allocator arena\n";
        unsafe { libc::write(2, msg.as_ptr() as *const _, msg.len()) };
        unsafe { libc::_exit(2) };
    }
    match ARENA_BASE.compare_exchange(0, ARENA_ADDR, AcqRel, Acquire) {
        Ok(_) => {
            ARENA_TOP.store(ARENA_ADDR, Release);
            RUN_START.store(ARENA_ADDR, Release);
        }
        Err(_) => {}
    }
    ARENA_ADDR
}

/// Must be called once, single-threaded, before the first RUN-mode allocation.
pub fn init() {
    arena_init();
}

fn align_up(x: usize, a: usize) -> usize {
    (x + a - 1) & !(a - 1)
}

unsafe fn arena_alloc(size: usize, align: usize, run: bool) -> *mut u8 {
    arena_init();
    let page = align >= PAGE;
    if page && PAGE_REUSE.load(Relaxed) {
        // most recently freed block of exactly this size
        let n = NPAGES.load(SeqCst).min(NPG);
        let want = align_up(size.max(1), PAGE);
        let same_role = PAGE_REUSE_SAME_ROLE.load(Relaxed);
        let fits = |e: &PageEnt| e.state.load(SeqCst) == PG_FREED && e.len.load(SeqCst) == want && e.start.load(SeqCst) % align == 0;
        // the block of this size that was freed last ...
        let mut best: Option<usize> = None;
        for (i, e) in PAGES[..n].iter().enumerate() {
            if fits(e) && best.map(|b| PAGES[b].free_seq.load(SeqCst) < e.free_seq.load(SeqCst)).unwrap_or(true) {
                best = Some(i);
            }
        }
        // ... or, of the module it belonged to, the fitting block that was allocated first
        if let (true, Some(b)) = (same_role, best) {
            let m = PAGES[b].module.load(SeqCst);
            for (i, e) in PAGES[..n].iter().enumerate() {
                if fits(e) && e.module.load(SeqCst) == m && e.alloc_seq.load(SeqCst) < PAGES[best.unwrap()].alloc_seq.load(SeqCst) {
                    best = Some(i);
                }
            }
        }
        if let Some(i) = best {
            let e = &PAGES[i];
            let user = e.start.load(SeqCst);
            unsafe {
                let h = (user - HDR) as *mut Header;
                (*h).magic = LIVE;
                (*h).size = size;
                (*h).align = align;
                (*h).seq = SEQ.fetch_add(1, Relaxed);
                std::ptr::write_bytes(user as *mut u8, POISON_FRESH, size);
            }
            e.module.store(CUR_MODULE.try_with(|c| c.get()).unwrap_or(u32::MAX), SeqCst);
            e.alloc_seq.store(PAGE_SEQ.fetch_add(1, SeqCst), SeqCst);
            e.state.store(PG_LIVE, SeqCst);
            MOD_ALLOC[mod_slot(CUR_MODULE.try_with(|c| c.get()).unwrap_or(u32::MAX))].fetch_add(1, SeqCst);
            ST_PAGE_REUSED.fetch_add(1, Relaxed);
            ST_PAGE_ALLOCS.fetch_add(1, Relaxed);
            return user as *mut u8;
        }
    }
    loop {
        let base = ARENA_TOP.load(Acquire);
        let user = align_up(base + PRE + HDR, align.max(1));
        let end = if page {
            user + align_up(size.max(1), PAGE)
        } else {
            align_up(user + size + CANARY_LEN, 16)
        };
        if end > ARENA_ADDR + ARENA_SIZE {
            return std::ptr::null_mut();
        }
        if ARENA_TOP
            .compare_exchange(base, end, AcqRel, Acquire)
            .is_err()
        {
            continue;
        }
        unsafe {
            let pre = base as *mut Pre;
            (*pre).total = end - base;
            (*pre).user_off = user - base;
            let h = (user - HDR) as *mut Header;
            (*h).magic = LIVE;
            (*h).flags = F_ARENA | if page { F_PAGE } else { 0 } | if run { F_RUN } else { 0 };
            (*h).size = size;
            (*h).align = align;
            (*h).seq = SEQ.fetch_add(1, Relaxed);
            std::ptr::write_bytes(user as *mut u8, POISON_FRESH, size);
            if !page {
                std::ptr::write_bytes((user + size) as *mut u8, CANARY, CANARY_LEN);
            } else {
                let i = NPAGES.fetch_add(1, SeqCst);
                if i < NPG {
                    let e = &PAGES[i];
                    e.start.store(user, SeqCst);
                    e.len.store(align_up(size.max(1), PAGE), SeqCst);
                    e.module
                        .store(CUR_MODULE.try_with(|c| c.get()).unwrap_or(u32::MAX), SeqCst);
                    e.freed_step.store(0, SeqCst);
                    e.frees.store(0, SeqCst);
                    e.alloc_seq.store(PAGE_SEQ.fetch_add(1, SeqCst), SeqCst);
                    e.state.store(PG_LIVE, SeqCst);
                }
                MOD_ALLOC[mod_slot(CUR_MODULE.try_with(|c| c.get()).unwrap_or(u32::MAX))].fetch_add(1, SeqCst);
                ST_PAGE_ALLOCS.fetch_add(1, Relaxed);
            }
        }
        return user as *mut u8;
    }
}

fn sys_layout(size: usize, align: usize) -> (Layout, usize) {
    let hs = HDR.max(align);
    (
        Layout::from_size_align(hs + size + CANARY_LEN, align.max(16)).unwrap(),
        hs,
    )
}

pub struct SimAlloc;

unsafe impl GlobalAlloc for SimAlloc {
    unsafe fn alloc(&self, l: Layout) -> *mut u8 {
        let m = mode();
        let (size, align) = (l.size(), l.align());
        if m == MODE_RUN || (m == MODE_COMPILE && align >= PAGE) {
            ST_RUN_ALLOCS.fetch_add(1, Relaxed);
            return unsafe { arena_alloc(size, align, true) };
        }
        let (lay, hs) = sys_layout(size, align);
        let base = unsafe { System.alloc(lay) };
        if base.is_null() {
            return base;
        }
        unsafe {
            let user = base.add(hs);
            let h = user.sub(HDR) as *mut Header;
            (*h).magic = LIVE;
            (*h).flags = if m != MODE_PLAIN { F_RUN } else { 0 };
            (*h).size = size;
            (*h).align = align;
            (*h).seq = SEQ.fetch_add(1, Relaxed);
            if m != MODE_PLAIN {
                std::ptr::write_bytes(user, POISON_FRESH, size);
            }
            std::ptr::write_bytes(user.add(size), CANARY, CANARY_LEN);
            user
        }
    }

    unsafe fn alloc_zeroed(&self, l: Layout) -> *mut u8 {
        let p = unsafe { self.alloc(l) };
        if !p.is_null() {
            unsafe { std::ptr::write_bytes(p, 0, l.size()) };
        }
        p
    }

    unsafe fn dealloc(&self, p: *mut u8, l: Layout) {
        let m = mode();
        unsafe {
            let h = p.sub(HDR) as *mut Header;
            let magic = (*h).magic;
            if magic == FREED {
                violation(V_DOUBLE_FREE, (*h).size as u64, (*h).seq, 0);
                return;
            }
            if magic != LIVE {
                violation(V_UNKNOWN_FREE, p as u64, l.size() as u64, l.align() as u64);
                return;
            }
            let (size, align, flags) = ((*h).size, (*h).align, (*h).flags);
            if (size != l.size() || align != l.align()) && (m != MODE_PLAIN || flags & F_RUN != 0) {
                violation(
                    V_LAYOUT,
                    ((l.size() as u64) << 16) | (l.align() as u64 & 0xffff),
                    ((size as u64) << 16) | (align as u64 & 0xffff),
                    (*h).seq,
                );
            }
            if flags & F_PAGE == 0 {
                let c = std::slice::from_raw_parts(p.add(size), CANARY_LEN);
                if c.iter().any(|&b| b != CANARY) {
                    violation(V_OVERRUN, size as u64, align as u64, (*h).seq);
                }
            }
            if flags & F_ARENA != 0 || m == MODE_RUN {
                // quarantine
                (*h).magic = FREED;
                if flags & F_PAGE != 0 {
                    let len = align_up(size.max(1), PAGE);
                    std::ptr::write_bytes(p, POISON_FREED, size);
                    if !PAGE_REUSE.load(Relaxed) {
                        libc::mprotect(p as *mut _, len, libc::PROT_NONE);
                    }
                    let n = NPAGES.load(SeqCst).min(NPG);
                    for e in &PAGES[..n] {
                        if e.start.load(SeqCst) == p as usize {
                            MOD_FREE[mod_slot(e.module.load(SeqCst))].fetch_add(1, SeqCst);
                            e.state.store(PG_FREED, SeqCst);
                            e.freed_step.store(CUR_STEP.load(Relaxed), SeqCst);
                            e.free_seq.store(PAGE_SEQ.fetch_add(1, SeqCst), SeqCst);
                            e.frees.fetch_add(1, SeqCst);
                        }
                    }
                    ST_PAGE_FREES.fetch_add(1, Relaxed);
                } else {
                    std::ptr::write_bytes(p, POISON_FREED, size);
                }
                ST_QUAR_BLOCKS.fetch_add(1, Relaxed);
                ST_QUAR_BYTES.fetch_add(size as u64, Relaxed);
                return;
            }
            (*h).magic = 0;
            if m != MODE_PLAIN {
                std::ptr::write_bytes(p, POISON_FREED, size.min(256));
            }
            let (lay, hs) = sys_layout(size, align);
            System.dealloc(p.sub(hs), lay);
        }
    }

    unsafe fn realloc(&self, p: *mut u8, l: Layout, new: usize) -> *mut u8 {
        // always move: growth never happens in place
        let nl = match Layout::from_size_align(new, l.align()) {
            Ok(x) => x,
            Err(_) => return std::ptr::null_mut(),
        };
        let np = unsafe { self.alloc(nl) };
        if np.is_null() {
            return np;
        }
        unsafe {
            std::ptr::copy_nonoverlapping(p, np, l.size().min(new));
            self.dealloc(p, l);
        }
        if mode() == MODE_RUN {
            ST_REALLOC_MOVES.fetch_add(1, Relaxed);
        }
        np
    }
}

// ---------------------------------------------------------------- run boundaries
pub fn begin_run() {
    arena_init();
    RUN_START.store(ARENA_TOP.load(SeqCst), SeqCst);
}

#[derive(Default, Debug, Clone, Copy)]
pub struct ArenaReport {
    pub live_blocks: usize,
    pub live_bytes: usize,
    pub freed_blocks: usize,
}

/// Walk the blocks allocated since `begin_run`: canaries of live blocks,
/// poison of freed blocks (a write through a stale pointer is detected even if
/// nothing read it back).
pub fn end_run_check() -> ArenaReport {
    let mut r = ArenaReport::default();
    let mut p = RUN_START.load(SeqCst);
    let top = ARENA_TOP.load(SeqCst);
    // SAFETY: walks block pre-headers written by `arena_alloc`.
    unsafe {
        while p < top {
            let pre = &*(p as *const Pre);
            if pre.total == 0 {
                break;
            }
            let user = p + pre.user_off;
            let h = &*((user - HDR) as *const Header);
            if h.magic == LIVE {
                r.live_blocks += 1;
                r.live_bytes += h.size;
                if h.flags & F_PAGE == 0 {
                    let c = std::slice::from_raw_parts((user + h.size) as *const u8, CANARY_LEN);
                    if c.iter().any(|&b| b != CANARY) {
                        violation(V_OVERRUN, h.size as u64, h.align as u64, h.seq);
                    }
                }
            } else if h.magic == FREED {
                r.freed_blocks += 1;
                if h.flags & F_PAGE == 0 {
                    let s = std::slice::from_raw_parts(user as *const u8, h.size);
                    if let Some(off) = s.iter().position(|&b| b != POISON_FREED) {
                        violation(V_STALE_WRITE, h.size as u64, off as u64, h.seq);
                    }
                }
            }
            p += pre.total;
        }
    }
    r
}

pub fn is_poison_u64(x: u64) -> bool {
    x == 0xDDDD_DDDD_DDDD_DDDD || x == 0xCDCD_CDCD_CDCD_CDCD
}

//! C12: compiled functions under concurrent use.
//!
//! Part A ("calls"): N simulated threads call shared handles while other
//! threads compile and drop; every call must equal the same call executed
//! alone (result, host-call log, tracked clone/drop multiset).
//! Part B ("cold-race"): threads start from a cold process image (empty type
//! registry and interner) and race runtime construction, compilation and
//! `get_function::<F>` for matching and non-matching `F`.
//! Part C (probe crates) lives in runner.rs.

use crate::rng::{self, Rng};
use crate::sched::{self, SimCfg, Strategy};
use crate::sendable::Sendable;
use crate::tracked::{self, Big, T24, Zst};
use crate::{RunResult, alloc, viol};
use roto::{Context, Ctx, FileTree, List, NoCtx, Package, RotoString, Runtime, TypedFunc, Val, Verdict, library};
use serde::{Deserialize, Serialize};
use std::cell::RefCell;
use std::collections::{BTreeMap, HashMap};
use std::sync::atomic::{AtomicI64, AtomicU64, Ordering::SeqCst};
use std::sync::{Arc, Mutex};

#[derive(Clone, Debug, PartialEq, Serialize, Deserialize)]
pub enum ConcOp {
    Call { f: usize, x: u64 },
    /// replace this thread's handle for `f` by its own clone of the TypedFunc
    CloneH { f: usize },
    DropH { f: usize },
    DropPkg,
    DropRt,
}

#[derive(Clone, Debug, Serialize, Deserialize)]
pub struct ConcDesc {
    pub property: String,
    pub scenario: String,
    pub run_seed: u64,
    pub strategy: String,
    pub sched_seed: u64,
    pub params: Vec<u64>,
    pub callers: Vec<Vec<ConcOp>>,
    /// background compile loops: (multiplier q, argument x) per iteration
    pub compilers: Vec<Vec<(u64, u64)>>,
    /// scenario "stringbuf": per thread (push?, token number)
    #[serde(default)]
    pub sb_ops: Vec<Vec<(bool, u64)>>,
    /// (caller thread, operation index, k): that operation is single-stepped and preempted after
    /// exactly k instructions of code under test
    #[serde(default)]
    pub fine: Option<(usize, usize, u64)>,
    /// anchored instruction-level window (sched::set_anchor): (thread, hook site, n, k)
    #[serde(default)]
    pub anchor: Option<(usize, String, u64, u64, u64)>,
    #[serde(default)]
    pub schedule: Option<Vec<u8>>,
}

pub const FN_NAMES: [&str; 18] = ["a1", "s1", "o1", "r1", "e1", "l1", "l2", "c1", "h1", "re1", "fm", "sb1", "cx", "cs", "b1", "g1", "fm2", "d1"];

/// Context type of the second runtime: every call brings its own context.
#[derive(Clone, Context)]
pub struct CallCtx {
    pub base: u64,
    pub tag: Val<T24>,
    pub name: RotoString,
}

fn ctx_runtime() -> Runtime<Ctx<CallCtx>> {
    Runtime::from_lib(library! {
        #[clone] type Tr = Val<T24>;
        fn val(t: Val<T24>) -> u64 {
            let p = payload_of(&t.0, "host function val() received a tracked value that is not alive");
            host("val", p);
            p
        }
        fn log(x: u64) {
            host("log", x);
        }
    })
    .expect("runtime")
    .with_context_type::<CallCtx>()
    .expect("context type")
}

pub fn ctx_corpus(p: &[u64]) -> String {
    let p5 = p[4];
    format!(
        r#"fn cx(x: u64) -> u64 {{
    log(x);
    let t = tag;
    x * {p5} + base + val(t) + val(tag)
}}
fn cs(x: u64) -> String {{
    let n = name;
    f"{{n}}-{{base}}-{{x}}"
}}
"#
    )
}

#[derive(Clone, Debug, PartialEq, Serialize, Deserialize)]
pub enum CallRes {
    Num(u64),
    Text(String),
    Obj(Option<u64>),
    Verd(Option<u64>),
    Bad(String),
}

// ------------------------------------------------------------------ host side
thread_local! {
    static HOSTLOG: RefCell<Vec<(&'static str, u64)>> = const { RefCell::new(Vec::new()) };
}
static REENTER: Mutex<Option<Arc<Sendable<Fx>>>> = Mutex::new(None);
/// handle of `re1` itself: the host function re-enters the function that called it
static REENTER_SELF: Mutex<Option<Arc<Sendable<Fx>>>> = Mutex::new(None);
/// handle of `d1`: deep host <-> script recursion (one level per unit of the argument)
static REENTER_DEEP: Mutex<Option<Arc<Sendable<Fx>>>> = Mutex::new(None);
static P_REENTER_DEPTH: AtomicU64 = AtomicU64::new(0);
static IN_CALL: AtomicI64 = AtomicI64::new(0);
static P_CALLS_OVERLAPPED: AtomicU64 = AtomicU64::new(0);
static P_DROP_DURING_CALL: AtomicU64 = AtomicU64::new(0);
static P_COMPILE_DURING_CALL: AtomicU64 = AtomicU64::new(0);

fn host(tag: &'static str, v: u64) {
    {
        let _mg = alloc::ModeGuard::new(alloc::MODE_PLAIN);
        HOSTLOG.with(|l| l.borrow_mut().push((tag, v)));
    }
    sched::point("host");
}
fn take_hostlog() -> Vec<(&'static str, u64)> {
    let _mg = alloc::ModeGuard::new(alloc::MODE_PLAIN);
    HOSTLOG.with(|l| std::mem::take(&mut *l.borrow_mut()))
}

fn payload_of(t: &T24, what: &str) -> u64 {
    match t.checked_payload() {
        Ok(p) => p,
        Err(e) => {
            viol::record("stale-read", format!("{what}: {e}"));
            0
        }
    }
}

fn main_runtime() -> Runtime<NoCtx> {
    let cap = T24::new(4242);
    Runtime::from_lib(library! {
        #[clone] type Tr = Val<T24>;
        fn mk(x: u64) -> Val<T24> {
            host("mk", x);
            Val(T24::new(x))
        }
        fn val(t: Val<T24>) -> u64 {
            let p = payload_of(&t.0, "host function val() received a tracked value that is not alive");
            host("val", p);
            p
        }
        fn log(x: u64) {
            host("log", x);
        }
        #[clone] type Bg = Val<Big>;
        fn mkbig(x: u64) -> Val<Big> {
            host("mkbig", x);
            Val(Big::new(x))
        }
        fn bigval(b: Val<Big>) -> u64 {
            let p = match b.0.checked_payload() {
                Ok(p) => p,
                Err(e) => {
                    viol::record("stale-read", format!("host function bigval() received a damaged 1104-byte value: {e}"));
                    0
                }
            };
            host("bigval", p);
            p
        }
        fn deeper(x: u64) -> u64 {
            host("deeper", x);
            let f = { REENTER_DEEP.lock().unwrap().clone() };
            match f {
                Some(f) if x > 0 => match f.0.call(x - 1) {
                    CallRes::Num(n) => n,
                    _ => 0,
                },
                _ => 0,
            }
        }
        fn reenter(x: u64) -> u64 {
            host("reenter", x);
            // odd arguments re-enter the calling function itself (bounded depth), even ones another function
            let f = if x % 2 == 1 && x > 1 { REENTER_SELF.lock().unwrap().clone() } else { REENTER.lock().unwrap().clone() };
            let x = if x % 2 == 1 && x > 1 { x / 2 + 1 } else { x };
            match f {
                Some(f) => {
                    P_REENTER_DEPTH.fetch_add(1, SeqCst);
                    match f.0.call(x % 50) {
                        CallRes::Num(n) => n,
                        _ => 0,
                    }
                }
                None => 0,
            }
        }
        let cap = move || -> u64 {
            let c: &T24 = &cap;
            let p = payload_of(c, "state captured by the registered closure is not alive");
            host("cap", p);
            p
        };
    })
    .expect("runtime")
}

pub fn corpus(p: &[u64]) -> String {
    let (p1, p2, p3, p4, p5, p6) = (p[0], p[1], p[2], p[3], p[4], p[5]);
    let ct = 7000 + p[0];
    format!(
        r#"record Pair {{ a: u64, b: Tr }}
enum Shape {{ Dot, Boxed(u64), Tagged(Tr) }}
const CS: String = "c{p1}";
const CT: Tr = mk({ct});
const CL: List[u64] = [{p2}, {p3}, {p4}];

fn fib(n: u64) -> u64 {{ if n < 2 {{ n }} else {{ fib(n - 1) + fib(n - 2) }} }}
fn a1(x: u64) -> u64 {{
    let z = x * {p1} + {p2};
    if z > {p3} {{ z - {p3} + fib(x % 7 + 3) }} else {{ z + fib(x % 5) }}
}}
fn s1(a: String, x: u64) -> String {{
    let t = a + CS;
    f"{{t}}-{{x}}-{p4}"
}}
fn o1(v: Tr, x: u64) -> Tr? {{ if x % 2 == 0 {{ Some(v) }} else {{ None }} }}
fn r1(v: Tr, x: u64) -> u64 {{
    let p = Pair {{ a: x + {p5}, b: v }};
    let q = p;
    q.a + val(q.b) + val(p.b)
}}
fn shape(v: Tr, x: u64) -> Shape {{
    if x % 3 == 0 {{ Shape.Dot }} else if x % 3 == 1 {{ Shape.Boxed(x) }} else {{ Shape.Tagged(v) }}
}}
fn e1(v: Tr, x: u64) -> u64 {{
    match shape(v, x) {{
        Dot => 1,
        Boxed(y) => y + 2,
        Tagged(t) => val(t) + 3,
    }}
}}
fn l1(x: u64) -> u64 {{
    let l = [x, x + 1];
    l.push(x * 2);
    let m = l.concat([{p6}]);
    let s = 0;
    for y in m {{ s = s + y; }}
    s + m.len() + l.len()
}}
fn l2(v: Tr, x: u64) -> u64 {{
    let l = [v, v];
    l.push(v);
    let s = 0;
    for y in l {{ s = s + val(y); }}
    s + x
}}
fn c1(x: u64) -> u64 {{
    let s = 0;
    for y in CL {{ s = s + y; }}
    s + val(CT) + CL.len() + x + cap()
}}
fn h1(x: u64) -> u64 {{
    log(x);
    log(x + 1);
    val(mk(x)) + val(CT)
}}
fn re1(x: u64) -> u64 {{
    log(x);
    reenter(x) + 1
}}
filtermap fm(x: u64) {{
    if x > {p2} {{ accept x }} else {{ reject }}
}}
fn b1(a: String, x: u64) -> String {{
    let u = a.to_uppercase().repeat(x % 3 + 1);
    let parts = u.split("G");
    let j = parts.join("-");
    let t = j.replace("A", "aa").trim();
    let n = t.chars().len();
    t + ":" + x.to_string() + ":" + n.to_string() + ":" + CS.to_lowercase()
}}
fn g1(x: u64) -> u64 {{
    let b = mkbig(x + 800);
    let c = b;
    log(x);
    let d = if x % 2 == 0 {{ c }} else {{ mkbig(x + 900) }};
    bigval(b) + bigval(d) + bigval(c)
}}
filtermap fm2(x: u64) {{
    if x > {p2} {{ accept "big" }} else {{ reject x + 1 }}
}}
fn d1(x: u64) -> u64 {{
    if x == 0 {{ 0 }} else {{ deeper(x) + 1 }}
}}
fn sb1(a: String, x: u64) -> String {{
    let b = StringBuf.new();
    b.push_string(a);
    b.push_string(CS);
    b.as_string()
}}
"#
    )
}

#[derive(Clone)]
pub enum Fx {
    U(TypedFunc<NoCtx, fn(u64) -> u64>),
    TU(TypedFunc<NoCtx, fn(Val<T24>, u64) -> u64>),
    S(TypedFunc<NoCtx, fn(RotoString, u64) -> RotoString>),
    O(TypedFunc<NoCtx, fn(Val<T24>, u64) -> Option<Val<T24>>>),
    V(TypedFunc<NoCtx, fn(u64) -> Verdict<u64, ()>>),
    CU(TypedFunc<Ctx<CallCtx>, fn(u64) -> u64>),
    CS(TypedFunc<Ctx<CallCtx>, fn(u64) -> RotoString>),
    V2(TypedFunc<NoCtx, fn(u64) -> Verdict<RotoString, u64>>),
}

impl Fx {
    fn call(&self, x: u64) -> CallRes {
        let obj = || Val(T24::new(500 + x % 10));
        match self {
            Fx::U(f) => CallRes::Num(f.call(x)),
            Fx::TU(f) => CallRes::Num(f.call(obj(), x)),
            Fx::S(f) => {
                let r = f.call(RotoString::from(format!("arg{}", x % 4)), x);
                let s: &str = r.as_ref();
                CallRes::Text(s.to_string())
            }
            Fx::O(f) => match f.call(obj(), x) {
                None => CallRes::Obj(None),
                Some(v) => match v.0.checked_payload() {
                    Ok(p) => CallRes::Obj(Some(p)),
                    Err(e) => CallRes::Bad(e),
                },
            },
            Fx::V(f) => match f.call(x) {
                Verdict::Accept(v) => CallRes::Verd(Some(v)),
                Verdict::Reject(()) => CallRes::Verd(None),
            },
            Fx::V2(f) => match f.call(x) {
                Verdict::Accept(v) => {
                    let s: &str = v.as_ref();
                    CallRes::Text(format!("accept:{s}"))
                }
                Verdict::Reject(n) => CallRes::Verd(Some(n)),
            },
            Fx::CU(f) => {
                let mut c = CallCtx { base: 1000 + x % 7, tag: Val(T24::new(600 + x % 5)), name: RotoString::from(format!("n{}", x % 3)) };
                CallRes::Num(f.call(&mut c, x))
            }
            Fx::CS(f) => {
                let mut c = CallCtx { base: 1000 + x % 7, tag: Val(T24::new(600 + x % 5)), name: RotoString::from(format!("n{}", x % 3)) };
                let r = f.call(&mut c, x);
                let s: &str = r.as_ref();
                CallRes::Text(s.to_string())
            }
        }
    }
}

fn load(pkg: &mut Package<NoCtx>, pkg2: &mut Package<Ctx<CallCtx>>) -> Result<Vec<Arc<Sendable<Fx>>>, String> {
    let mut v = Vec::new();
    for (i, n) in FN_NAMES.iter().enumerate() {
        let fx = match i {
            12 => pkg2.get_function(n).map(Fx::CU).map_err(|e| e.to_string()),
            13 => pkg2.get_function(n).map(Fx::CS).map_err(|e| e.to_string()),
            0 | 5 | 7 | 8 | 9 | 15 | 17 => pkg.get_function(n).map(Fx::U).map_err(|e| e.to_string()),
            16 => pkg.get_function(n).map(Fx::V2).map_err(|e| e.to_string()),
            3 | 4 | 6 => pkg.get_function(n).map(Fx::TU).map_err(|e| e.to_string()),
            1 | 11 | 14 => pkg.get_function(n).map(Fx::S).map_err(|e| e.to_string()),
            2 => pkg.get_function(n).map(Fx::O).map_err(|e| e.to_string()),
            _ => pkg.get_function(n).map(Fx::V).map_err(|e| e.to_string()),
        };
        v.push(Arc::new(Sendable(fx.map_err(|e| format!("{n}: {e}"))?)));
    }
    Ok(v)
}

type Multiset = BTreeMap<(u64, i8), u32>;
fn multiset(log: Vec<(usize, u64, i8)>) -> Multiset {
    let mut m = BTreeMap::new();
    for (_, p, s) in log {
        *m.entry((p, s)).or_insert(0) += 1;
    }
    m
}
type Solo = (CallRes, Vec<(&'static str, u64)>, Multiset);

enum Local {
    Shared(Arc<Sendable<Fx>>),
    Own(Sendable<Fx>),
    Gone,
}

fn report_text(e: &roto::RotoReport) -> String {
    let mut s = String::new();
    let _ = e.write(&mut s, false);
    s.chars().filter(|c| !c.is_control() || *c == ' ').take(400).collect()
}

// ------------------------------------------------------------------ generation

/// Scenario "stringbuf": a `StringBuf` shared through a script constant, appended to and read
/// from several threads; the recorded history must be linearizable w.r.t. one shared string.
pub fn generate_stringbuf(run_seed: u64, thorough: bool) -> ConcDesc {
    let mut r = Rng::new(rng::derive(run_seed, &[rng::label("workload")]));
    let n = 2 + r.below(2) as usize;
    let mut tok = 0u64;
    let mut sb_ops = Vec::new();
    for _ in 0..n {
        let k = 2 + r.below(if thorough { 4 } else { 3 }) as usize;
        let mut ops = Vec::new();
        for _ in 0..k {
            match r.weighted(&[45, 35, 10, 10]) {
                0 => {
                    tok += 1;
                    ops.push((true, tok));
                }
                1 => ops.push((false, 0)),
                // (false, 1) = `SB == SB2`, (false, 2) = `SB2 == SB` (SB2 stays empty)
                2 => ops.push((false, 1)),
                _ => ops.push((false, 2)),
            }
        }
        sb_ops.push(ops);
    }
    let mut sr = Rng::new(rng::derive(run_seed, &[rng::label("strategy")]));
    let strategy = crate::scen_list::pick_strategy(&mut sr, 60);
    ConcDesc {
        property: "C12".into(),
        scenario: "stringbuf".into(),
        run_seed,
        strategy: strategy.name(),
        sched_seed: rng::derive(run_seed, &[rng::label("schedule")]),
        params: vec![],
        callers: vec![],
        compilers: vec![],
        sb_ops,
        fine: None,
        anchor: None,
        schedule: None,
    }
}

/// Sub-scenario "call-race": two threads call the *same* function through the *same* handle
/// object; thread 0's first call is preempted after exactly k instructions (k uniform, so
/// successive runs sweep the instruction positions of the call path, including the few
/// instructions between the generated code's last write and the caller's read of the result).
pub fn generate_call_race(run_seed: u64) -> ConcDesc {
    let mut r = Rng::new(rng::derive(run_seed, &[rng::label("call-race")]));
    let params: Vec<u64> = vec![2 + r.below(9), 3 + r.below(40), 20 + r.below(400), 1 + r.below(99), r.below(1000), r.below(50)];
    // functions that return through an out-pointer (String, Option, Verdict) or take large values
    // ... and, since round 11, the rest of the corpus as well (local lists, enums, constants,
    // arithmetic): anything a code generator or a built-in might keep outside the caller's frame
    let f = *r.pick(&[1usize, 2, 10, 16, 13, 14, 11, 15, 3, 1, 2, 10, 16, 13, 14, 11, 15, 3, 4, 5, 6, 7, 0, 12]);
    let callers = vec![
        vec![ConcOp::Call { f, x: r.below(60) }, ConcOp::Call { f, x: r.below(60) }],
        vec![ConcOp::Call { f, x: r.below(60) }, ConcOp::Call { f, x: r.below(60) }],
    ];
    ConcDesc {
        property: "C12".into(),
        scenario: "call-race".into(),
        run_seed,
        strategy: "sticky95".into(),
        sched_seed: rng::derive(run_seed, &[rng::label("schedule")]),
        params,
        callers,
        compilers: vec![],
        sb_ops: vec![],
        fine: Some((0, 0, 1 + r.below(2500))),
        anchor: None,
        schedule: None,
    }
}

pub fn generate(run_seed: u64, thorough: bool, cold_race: bool) -> ConcDesc {
    let mut r = Rng::new(rng::derive(run_seed, &[rng::label("workload")]));
    let params: Vec<u64> = vec![2 + r.below(9), 3 + r.below(40), 20 + r.below(400), 1 + r.below(99), r.below(1000), r.below(50)];
    let mut callers = Vec::new();
    let mut compilers = Vec::new();
    if cold_race {
        // 2-3 racing threads; per thread: which library/script variant
        let n = 2 + r.below(2) as usize;
        for _ in 0..n {
            compilers.push(vec![(r.below(2), r.below(100))]);
        }
    } else {
        let n = 2 + r.weighted(&[50, 35, 15]);
        let m = if thorough { 6 } else { 4 };
        let mut dropped_pkg = false;
        let mut dropped_rt = false;
        for t in 0..n {
            let mut ops = Vec::new();
            let k = 1 + r.below(m) as usize;
            for _ in 0..k {
                let f = r.below(FN_NAMES.len() as u64) as usize;
                match r.weighted(&[70, 10, 6, 7, 7]) {
                    0 => ops.push(ConcOp::Call { f, x: r.below(60) }),
                    1 => ops.push(ConcOp::CloneH { f }),
                    2 => ops.push(ConcOp::DropH { f }),
                    3 if !dropped_pkg && t == 0 => {
                        dropped_pkg = true;
                        ops.push(ConcOp::DropPkg)
                    }
                    4 if !dropped_rt && t <= 1 => {
                        dropped_rt = true;
                        ops.push(ConcOp::DropRt)
                    }
                    _ => ops.push(ConcOp::Call { f, x: r.below(60) }),
                }
            }
            callers.push(ops);
        }
        let nc = r.weighted(&[35, 45, 20]);
        for _ in 0..nc {
            let iters = 1 + r.below(2) as usize;
            compilers.push((0..iters).map(|_| (2 + r.below(50), r.below(100))).collect());
        }
    }
    let mut sr = Rng::new(rng::derive(run_seed, &[rng::label("strategy")]));
    let strategy = crate::scen_list::pick_strategy_compiling(&mut sr, if cold_race { 6000 } else { 1500 });
    ConcDesc {
        property: "C12".into(),
        scenario: if cold_race { "cold-race".into() } else { "calls".into() },
        run_seed,
        strategy: strategy.name(),
        sched_seed: rng::derive(run_seed, &[rng::label("schedule")]),
        params,
        callers,
        compilers,
        sb_ops: vec![],
        fine: None,
        // one cold race in six: one thread is single-stepped from one of its interning points on
        // and preempted up to 300 instructions later - inside the interner, where a lookup and an
        // insert may be two steps
        anchor: if cold_race && rng::derive(run_seed, &[rng::label("anchor")]) % 6 == 0 {
            let mut ar = Rng::new(rng::derive(run_seed, &[rng::label("anchor-k")]));
            // mostly "right after the j-th atomic instruction" (where a lock of an un-hooked primitive
            // has just been taken or given back), sometimes "after k instructions"; early visits
            // of the site more often than late ones (names nobody has interned yet come early)
            let nth = if ar.chance(1, 2) { ar.below(250) } else { ar.below(1500) };
            if ar.chance(3, 4) {
                Some((ar.below(2) as usize, "intern".to_string(), nth, 3000, 1 + ar.below(6)))
            } else {
                Some((ar.below(2) as usize, "intern".to_string(), nth, 1 + ar.below(600), 0))
            }
        } else {
            None
        },
        schedule: None,
    }
}

// ------------------------------------------------------------------ background compile loop

fn small_runtime() -> Runtime<NoCtx> {
    Runtime::from_lib(library! {
        #[clone] type Tr = Val<T24>;
        fn mk(x: u64) -> Val<T24> {
            host("mk", x);
            Val(T24::new(x))
        }
        fn val(t: Val<T24>) -> u64 {
            let p = payload_of(&t.0, "host function val() received a tracked value that is not alive");
            host("val", p);
            p
        }
    })
    .expect("runtime")
}

/// Private runtimes of the background compilers: the same two function names with different
/// bodies, registered in opposite orders (so that the same function *index* means a different
/// function in the two libraries).
fn order_a_runtime() -> Runtime<NoCtx> {
    Runtime::from_lib(library! {
        #[clone] type Tr = Val<T24>;
        fn first(x: u64) -> u64 { host("first", x); x + 1000 }
        fn second(x: u64) -> u64 { host("second", x); x + 2000 }
        fn mk(x: u64) -> Val<T24> {
            host("mk", x);
            Val(T24::new(x))
        }
        fn val(t: Val<T24>) -> u64 {
            let p = payload_of(&t.0, "host function val() received a tracked value that is not alive");
            host("val", p);
            p
        }
    })
    .expect("runtime")
}
fn order_b_runtime() -> Runtime<NoCtx> {
    Runtime::from_lib(library! {
        #[clone] type Tr = Val<T24>;
        fn second(x: u64) -> u64 { host("second", x); x * 3 + 5 }
        fn val(t: Val<T24>) -> u64 {
            let p = payload_of(&t.0, "host function val() received a tracked value that is not alive");
            host("val", p);
            p
        }
        fn first(x: u64) -> u64 { host("first", x); x * 7 + 3 }
        fn mk(x: u64) -> Val<T24> {
            host("mk", x);
            Val(T24::new(x))
        }
    })
    .expect("runtime")
}

/// One background thread: compile - get_function - call - drop, `iters` times. The runtime is a
/// clone of the callers' runtime (scripts then declare records whose layouts differ from script
/// to script), or one of two private libraries.
fn compile_loop(tag: usize, iters: &[(u64, u64)], shared_rt: Option<Sendable<Runtime<NoCtx>>>) {
    for (j, (q, x)) in iters.iter().enumerate() {
        {
            let _pg = alloc::ModeGuard::new(alloc::MODE_PLAIN);
            sched::set_label("background compile");
        }
        if IN_CALL.load(SeqCst) > 0 {
            P_COMPILE_DURING_CALL.fetch_add(1, SeqCst);
        }
        let variant = (tag as u64 + *q) % 3;
        let c = 9000 + tag as u64;
        let (rt, src, want): (Runtime<NoCtx>, String, u64) = match (variant, &shared_rt) {
            (0, Some(rt)) => {
                // records with different layouts at the same position of the script
                let (decl, expr, extra) = match q % 3 {
                    0 => (format!("record P{tag} {{ a: u8, b: u64 }}"), format!("let p = P{tag} {{ a: 7, b: x * {q} }}; p.b + 1"), 1u64),
                    1 => (format!("record P{tag} {{ a: u64, b: u64, c: u64, d: u8 }}"), format!("let p = P{tag} {{ a: 1, b: x * {q}, c: 2, d: 3 }}; p.b + p.a + p.c"), 3u64),
                    _ => (format!("record P{tag} {{ s: String, b: u64, t: Tr }}"), format!("let p = P{tag} {{ s: \"s\", b: x * {q}, t: mk(4) }}; p.b + val(p.t)"), 4u64),
                };
                (rt.0.clone(), format!("{decl}\nconst Q{tag}: Tr = mk({c});\nfn g{tag}_{j}(x: u64) -> u64 {{ {expr} + val(mk(x)) + val(Q{tag}) }}\n"), x * q + extra + x + c)
            }
            (1, _) | (0, None) => (
                order_a_runtime(),
                format!("const Q{tag}: Tr = mk({c});\nfn g{tag}_{j}(x: u64) -> u64 {{ let w{tag} = first(x) * {q}; w{tag} + second(x) + val(mk(x)) + val(Q{tag}) }}\n"),
                (x + 1000) * q + (x + 2000) + x + c,
            ),
            _ => (
                order_b_runtime(),
                format!("const Q{tag}: Tr = mk({c});\nfn g{tag}_{j}(x: u64) -> u64 {{ let w{tag} = first(x) * {q}; w{tag} + second(x) + val(mk(x)) + val(Q{tag}) }}\n"),
                (x * 7 + 3) * q + (x * 3 + 5) + x + c,
            ),
        };
        let pkg = {
            let _cg = alloc::ModeGuard::new(alloc::MODE_COMPILE);
            FileTree::test_file("bg", &src, 0).compile(&rt)
        };
        match pkg {
            Ok(mut pkg) => {
                let f = pkg.get_function::<fn(u64) -> u64>(&format!("g{tag}_{j}"));
                match f {
                    Ok(f) => {
                        drop(pkg);
                        drop(rt);
                        let _ = take_hostlog();
                        let got = f.call(*x);
                        if got != want {
                            viol::record("wrong-result", format!("background function g{tag}_{j}({x}) (library variant {variant}, q={q}) returned {got}, expected {want}"));
                        }
                        let _ = take_hostlog();
                        drop(f);
                    }
                    Err(e) => viol::record("get-function-failed", format!("background g{tag}_{j}: {e}")),
                }
            }
            Err(e) => viol::record("compile-failed", format!("background script: {}", report_text(&e))),
        }
        if viol::any() {
            return;
        }
    }
}

// ------------------------------------------------------------------ Part B: cold race

fn lib_b_runtime() -> Runtime<NoCtx> {
    Runtime::from_lib(library! {
        #[clone] type Tr = Val<T24>;
        #[clone] type Zt = Val<Zst>;
        fn mk(x: u64) -> Val<T24> {
            host("mk", x);
            Val(T24::new(x))
        }
        fn val(t: Val<T24>) -> u64 {
            let p = payload_of(&t.0, "host function val() received a tracked value that is not alive");
            host("val", p);
            p
        }
        fn zt() -> Val<Zst> {
            Val(Zst::new())
        }
    })
    .expect("runtime")
}

/// 96 Rust types that nothing but the cold race ever mentions: asking for a function under a
/// signature that contains one registers it, so the type registry grows (and, being a hash
/// table, moves) several times while other threads look types up.
#[derive(Clone, PartialEq)]
pub struct Tag<const N: usize>(u64);
pub const N_NOVEL: usize = 96;

fn novel_one<const N: usize>(pkg: &mut Package<NoCtx>, name: &str) -> Result<Option<u64>, String> {
    pkg.get_function::<fn(Val<Tag<N>>) -> u64>(name).map(|_| None).map_err(|e| e.to_string())
}

macro_rules! novel_table {
    ($($n:literal),*) => {
        fn novel(pkg: &mut Package<NoCtx>, n: usize, name: &str) -> Result<Option<u64>, String> {
            match n {
                $($n => novel_one::<$n>(pkg, name),)*
                _ => Err("no such type".into()),
            }
        }
    };
}
novel_table!(0,1,2,3,4,5,6,7,8,9,10,11,12,13,14,15,16,17,18,19,20,21,22,23,24,25,26,27,28,29,30,31,32,33,34,35,36,37,38,39,40,41,42,43,44,45,46,47,48,49,50,51,52,53,54,55,56,57,58,59,60,61,62,63,64,65,66,67,68,69,70,71,72,73,74,75,76,77,78,79,80,81,82,83,84,85,86,87,88,89,90,91,92,93,94,95);

/// One racing thread: build a runtime, compile, try a matrix of signatures.
fn cold_thread(t: usize, variant: u64, x: u64) {
    {
        let _pg = alloc::ModeGuard::new(alloc::MODE_PLAIN);
        sched::set_label("cold: runtime + compile + get_function matrix");
    }
    let rt = if variant == 0 { small_runtime() } else { lib_b_runtime() };
    // `same` is declared by every thread under the same name but with a signature that depends
    // on the variant: nothing process-wide may remember a signature check by function name
    let same_sig = if variant == 0 { "fn same(x: u64) -> u64 { x + 1 }" } else { "fn same(x: u32) -> u32 { x + 2 }" };
    let src = format!(
        "fn f{t}(x: u64) -> u64 {{ x + {t} }}\nfn g{t}(v: Tr, x: u64) -> u64 {{ val(v) + x }}\nfn h{t}(a: String, b: bool) -> String? {{ if b {{ Some(a) }} else {{ None }} }}\nfn l{t}(l: List[u64]) -> u64 {{ l.len() }}\nfn i{t}(x: i32) -> i32 {{ x }}\nfn o{t}(x: u64) -> u64? {{ if x > 3 {{ Some(x) }} else {{ None }} }}\nfiltermap v{t}(x: u64) {{ if x > 3 {{ accept x }} else {{ reject }} }}\nfiltermap w{t}(x: u64) {{ if x > 3 {{ accept }} else {{ reject x }} }}\nfn ls{t}(a: String) -> List[String] {{ [a, a] }}\nfn dp{t}(x: u64) -> List[List[i16]?] {{ [Some([1, 2]), None] }}\n{same_sig}\n"
    );
    let pkg = {
        let _cg = alloc::ModeGuard::new(alloc::MODE_COMPILE);
        FileTree::test_file("cold", &src, 0).compile(&rt)
    };
    let mut pkg = match pkg {
        Ok(p) => p,
        Err(e) => {
            viol::record("compile-failed", format!("cold-race script of thread {t}: {}", report_text(&e)));
            return;
        }
    };
    let mut check = |name: &str, sig: &str, want_ok: bool, got: Result<Option<u64>, String>, want_val: Option<u64>| {
        match (&got, want_ok) {
            (Ok(v), true) => {
                if *v != want_val {
                    viol::record("wrong-result", format!("thread {t}: {name} as {sig} returned {v:?}, expected {want_val:?}"));
                }
            }
            (Err(_), false) => {}
            (Ok(_), false) => viol::record("signature-check", format!("thread {t}: get_function::<{sig}>({name:?}) was accepted although the script signature differs")),
            (Err(e), true) => viol::record("signature-check", format!("thread {t}: get_function::<{sig}>({name:?}) was refused although it is the script's signature: {e}")),
        }
    };
    let f = format!("f{t}");
    let g = format!("g{t}");
    let h = format!("h{t}");
    let l = format!("l{t}");
    let i = format!("i{t}");
    let tt = t as u64;
    // a composite type three levels deep, none of whose levels the process has seen before, looked
    // up by every thread first: the levels are registered one after the other
    let dp = format!("dp{t}");
    check(&dp, "fn(u64) -> List<Option<List<i16>>>", true, pkg.get_function::<fn(u64) -> List<Option<List<i16>>>>(&dp).map(|k| { let l = k.call(x); let n = l.len() as u64; drop(l); Some(n) }).map_err(|e| e.to_string()), Some(2));
    check(&dp, "fn(u64) -> List<Option<List<u16>>>", false, pkg.get_function::<fn(u64) -> List<Option<List<u16>>>>(&dp).map(|_| None).map_err(|e| e.to_string()), None);
    check(&f, "fn(u64) -> u64", true, pkg.get_function::<fn(u64) -> u64>(&f).map(|k| Some(k.call(x))).map_err(|e| e.to_string()), Some(x + tt));
    check(&f, "fn(u32) -> u64", false, pkg.get_function::<fn(u32) -> u64>(&f).map(|_| None).map_err(|e| e.to_string()), None);
    check(&f, "fn(u64) -> Option<u64>", false, pkg.get_function::<fn(u64) -> Option<u64>>(&f).map(|_| None).map_err(|e| e.to_string()), None);
    check(&f, "fn(u64, u64) -> u64", false, pkg.get_function::<fn(u64, u64) -> u64>(&f).map(|_| None).map_err(|e| e.to_string()), None);
    check(&g, "fn(Val<T24>, u64) -> u64", true, pkg.get_function::<fn(Val<T24>, u64) -> u64>(&g).map(|k| Some(k.call(Val(T24::new(30 + tt)), x))).map_err(|e| e.to_string()), Some(30 + tt + x));
    check(&g, "fn(Val<Zst>, u64) -> u64", false, pkg.get_function::<fn(Val<Zst>, u64) -> u64>(&g).map(|_| None).map_err(|e| e.to_string()), None);
    check(&g, "fn(u64, u64) -> u64", false, pkg.get_function::<fn(u64, u64) -> u64>(&g).map(|_| None).map_err(|e| e.to_string()), None);
    check(
        &h,
        "fn(RotoString, bool) -> Option<RotoString>",
        true,
        pkg.get_function::<fn(RotoString, bool) -> Option<RotoString>>(&h).map(|k| Some(k.call("abc".into(), true).map(|s| s.len() as u64).unwrap_or(99))).map_err(|e| e.to_string()),
        Some(3),
    );
    check(&h, "fn(RotoString, bool) -> RotoString", false, pkg.get_function::<fn(RotoString, bool) -> RotoString>(&h).map(|_| None).map_err(|e| e.to_string()), None);
    check(&h, "fn(RotoString, u8) -> Option<RotoString>", false, pkg.get_function::<fn(RotoString, u8) -> Option<RotoString>>(&h).map(|_| None).map_err(|e| e.to_string()), None);
    check(&l, "fn(List<u64>) -> u64", true, pkg.get_function::<fn(List<u64>) -> u64>(&l).map(|k| Some(k.call(List::from(vec![1u64, 2, 3])))).map_err(|e| e.to_string()), Some(3));
    check(&l, "fn(List<u32>) -> u64", false, pkg.get_function::<fn(List<u32>) -> u64>(&l).map(|_| None).map_err(|e| e.to_string()), None);
    check(&l, "fn(List<List<u64>>) -> u64", false, pkg.get_function::<fn(List<List<u64>>) -> u64>(&l).map(|_| None).map_err(|e| e.to_string()), None);
    check(&i, "fn(i32) -> i32", true, pkg.get_function::<fn(i32) -> i32>(&i).map(|k| Some(k.call(-5) as i64 as u64)).map_err(|e| e.to_string()), Some(-5i64 as u64));
    check(&i, "fn(u32) -> i32", false, pkg.get_function::<fn(u32) -> i32>(&i).map(|_| None).map_err(|e| e.to_string()), None);
    let o = format!("o{t}");
    let v = format!("v{t}");
    let w = format!("w{t}");
    let ls = format!("ls{t}");
    check(&o, "fn(u64) -> Option<u64>", true, pkg.get_function::<fn(u64) -> Option<u64>>(&o).map(|k| Some(k.call(9).unwrap_or(0))).map_err(|e| e.to_string()), Some(9));
    check(&o, "fn(u64) -> Option<u32>", false, pkg.get_function::<fn(u64) -> Option<u32>>(&o).map(|_| None).map_err(|e| e.to_string()), None);
    check(&o, "fn(u64) -> Option<Option<u64>>", false, pkg.get_function::<fn(u64) -> Option<Option<u64>>>(&o).map(|_| None).map_err(|e| e.to_string()), None);
    check(&v, "fn(u64) -> Verdict<u64, ()>", true, pkg.get_function::<fn(u64) -> Verdict<u64, ()>>(&v).map(|k| Some(match k.call(9) { Verdict::Accept(n) => n, Verdict::Reject(()) => 0 })).map_err(|e| e.to_string()), Some(9));
    check(&v, "fn(u64) -> Verdict<(), u64>", false, pkg.get_function::<fn(u64) -> Verdict<(), u64>>(&v).map(|_| None).map_err(|e| e.to_string()), None);
    check(&v, "fn(u64) -> Verdict<RotoString, ()>", false, pkg.get_function::<fn(u64) -> Verdict<RotoString, ()>>(&v).map(|_| None).map_err(|e| e.to_string()), None);
    check(&w, "fn(u64) -> Verdict<(), u64>", true, pkg.get_function::<fn(u64) -> Verdict<(), u64>>(&w).map(|k| Some(match k.call(2) { Verdict::Accept(()) => 0, Verdict::Reject(n) => n })).map_err(|e| e.to_string()), Some(2));
    check(&w, "fn(u64) -> Verdict<u64, ()>", false, pkg.get_function::<fn(u64) -> Verdict<u64, ()>>(&w).map(|_| None).map_err(|e| e.to_string()), None);
    check(&ls, "fn(RotoString) -> List<RotoString>", true, pkg.get_function::<fn(RotoString) -> List<RotoString>>(&ls).map(|k| { let l = k.call("q".into()); let n = l.len() as u64; drop(l); Some(n) }).map_err(|e| e.to_string()), Some(2));
    check(&ls, "fn(RotoString) -> List<u64>", false, pkg.get_function::<fn(RotoString) -> List<u64>>(&ls).map(|_| None).map_err(|e| e.to_string()), None);
    check("same", "fn(u64) -> u64", variant == 0, pkg.get_function::<fn(u64) -> u64>("same").map(|k| Some(k.call(x))).map_err(|e| e.to_string()), Some(x + 1));
    check("same", "fn(u32) -> u32", variant != 0, pkg.get_function::<fn(u32) -> u32>("same").map(|k| Some(k.call(7) as u64)).map_err(|e| e.to_string()), Some(9));
    check("nope", "fn(u64) -> u64", false, pkg.get_function::<fn(u64) -> u64>("nope").map(|_| None).map_err(|e| e.to_string()), None);
    // a stream of never-seen types, in an order that depends on the thread, mixed with lookups
    // of types that are long known
    for j in 0..N_NOVEL {
        let n = (j * 7 + t * 29) % N_NOVEL;
        let r = novel(&mut pkg, n, &f);
        check(&f, "fn(Val<Tag<n>>) -> u64", false, r, None);
        if j % 8 == 7 {
            check(&g, "fn(Val<T24>, u64) -> u64", true, pkg.get_function::<fn(Val<T24>, u64) -> u64>(&g).map(|k| Some(k.call(Val(T24::new(30 + tt)), x))).map_err(|e| e.to_string()), Some(30 + tt + x));
        }
    }
    let _ = take_hostlog();
    drop(pkg);
    drop(rt);
}

// ------------------------------------------------------------------ execution

pub fn execute(d: &ConcDesc, keep_trace: bool) -> RunResult {
    let _mg = alloc::ModeGuard::new(alloc::MODE_PLAIN);
    tracked::reset();
    for a in [&P_REENTER_DEPTH, &P_CALLS_OVERLAPPED, &P_DROP_DURING_CALL, &P_COMPILE_DURING_CALL] {
        a.store(0, SeqCst);
    }
    IN_CALL.store(0, SeqCst);
    *REENTER.lock().unwrap() = None;
    // swarm knob: in one run of three freed JIT pages are handed out again instead of quarantined
    let page_reuse = crate::rng::derive(d.run_seed, &[crate::rng::label("page-reuse")]) % 3 == 0;
    alloc::PAGE_REUSE.store(page_reuse, SeqCst);
    // ... and in half of those a module of the same shape gets every block back in the same role
    alloc::PAGE_REUSE_SAME_ROLE.store(crate::rng::derive(d.run_seed, &[crate::rng::label("page-reuse")]) % 6 == 0, SeqCst);
    let mut res = RunResult::default();
    let mut out = sched::SimOutcome::default();
    let mut n_calls = 0u64;
    let mut n_solo = 0u64;
    let mut fresh_pkg = false;

    if d.scenario == "stringbuf" {
        use crate::model::{Event, Heap, LOp, MVal, Obs};
        let mut keep: Option<(Sendable<Runtime<NoCtx>>, Sendable<Package<NoCtx>>)> = None;
        let mut fpush = None;
        let mut fread = None;
        let mut feq: Option<(Arc<Sendable<TypedFunc<NoCtx, fn() -> bool>>>, Arc<Sendable<TypedFunc<NoCtx, fn() -> bool>>>)> = None;
        {
            let _rg = alloc::ModeGuard::new(alloc::MODE_RUN);
            let rt = Runtime::new();
            let src = "const SB: StringBuf = StringBuf.new();\nconst SB2: StringBuf = StringBuf.new();\nfn sb_push(t: String) { SB.push_string(t); }\nfn sb_read() -> String { SB.as_string() }\nfn sb_eq_ab() -> bool { SB == SB2 }\nfn sb_eq_ba() -> bool { SB2 == SB }\n";
            let pkg = {
                let _cg = alloc::ModeGuard::new(alloc::MODE_COMPILE);
                FileTree::test_file("sb", src, 0).compile(&rt)
            };
            match pkg {
                Ok(mut pkg) => {
                    match (pkg.get_function::<fn(RotoString)>("sb_push"), pkg.get_function::<fn() -> RotoString>("sb_read")) {
                        (Ok(a), Ok(b)) => {
                            fpush = Some(Arc::new(Sendable(a)));
                            fread = Some(Arc::new(Sendable(b)));
                            match (pkg.get_function::<fn() -> bool>("sb_eq_ab"), pkg.get_function::<fn() -> bool>("sb_eq_ba")) {
                                (Ok(x), Ok(y)) => feq = Some((Arc::new(Sendable(x)), Arc::new(Sendable(y)))),
                                _ => viol::record("get-function-failed", "stringbuf equality helpers"),
                            }
                        }
                        (a, b) => viol::record("get-function-failed", format!("stringbuf helpers: {:?} {:?}", a.err().map(|e| e.to_string()), b.err().map(|e| e.to_string()))),
                    }
                    keep = Some((Sendable(rt), Sendable(pkg)));
                }
                Err(e) => viol::record("compile-failed", format!("stringbuf script: {}", report_text(&e))),
            }
        }
        let hist: Arc<Mutex<Vec<Event>>> = Arc::new(Mutex::new(Vec::new()));
        if let (Some(fpush), Some(fread), Some(feq)) = (fpush.clone(), fread.clone(), feq.clone()) {
            let bodies: Vec<sched::Body> = d
                .sb_ops
                .iter()
                .enumerate()
                .map(|(t, ops)| {
                    let ops = ops.clone();
                    let (fpush, fread, feq, hist) = (fpush.clone(), fread.clone(), feq.clone(), hist.clone());
                    Box::new(move || {
                        for (push, tok) in &ops {
                            {
                                let _pg = alloc::ModeGuard::new(alloc::MODE_PLAIN);
                                sched::set_label(if *push { "stringbuf push_string" } else if *tok == 0 { "stringbuf as_string" } else { "stringbuf ==" });
                            }
                            let inv = sched::stamp();
                            let (op, obs) = if *push {
                                fpush.call(RotoString::from(format!("t{tok};")));
                                (LOp::Push { l: 0, v: MVal::Str(format!("t{tok}")) }, Obs::Unit)
                            } else if *tok == 1 || *tok == 2 {
                                // SB2 is never appended to: the comparison is true exactly when SB is empty
                                let r = if *tok == 1 { feq.0.call() } else { feq.1.call() };
                                (LOp::IsEmpty { l: 0 }, Obs::Bool(r))
                            } else {
                                let r = fread.call();
                                let s: &str = r.as_ref();
                                let toks: Vec<MVal> = s.split(';').filter(|x| !x.is_empty()).map(|x| MVal::Str(x.to_string())).collect();
                                (LOp::ReadAll { l: 0 }, Obs::Vals(toks))
                            };
                            let ret = sched::stamp();
                            let _pg = alloc::ModeGuard::new(alloc::MODE_PLAIN);
                            hist.lock().unwrap().push(Event { tid: t, inv, ret, op, obs });
                        }
                    }) as sched::Body
                })
                .collect();
            out = sched::run_sim(
                SimCfg { seed: d.sched_seed, strategy: Strategy::parse(&d.strategy).unwrap_or(Strategy::Uniform), replay: d.schedule.clone(), step_cap: 200_000, keep_trace },
                bodies,
            );
            if !viol::any() {
                let mut heap = Heap::default();
                heap.new_list(vec![]);
                let ev = hist.lock().unwrap().clone();
                let lr = crate::model::linearizable(&heap, &ev, 600_000);
                if !lr.gave_up && !lr.ok {
                    let mut s = String::new();
                    for e in &ev {
                        s.push_str(&format!("[t{} {}..{} {:?} -> {:?}] ", e.tid, e.inv, e.ret, e.op, e.obs));
                    }
                    viol::record("stringbuf-not-linearizable", format!("no order of the appends and reads of the shared StringBuf explains the observed strings: {s}"));
                }
            }
        }
        {
            let _rg = alloc::ModeGuard::new(alloc::MODE_RUN);
            drop(fpush);
            drop(fread);
            drop(feq);
            drop(keep);
        }
        n_calls = d.sb_ops.iter().map(|o| o.len() as u64).sum();
    } else if d.scenario == "cold-race" {
        let bodies: Vec<sched::Body> = d
            .compilers
            .iter()
            .enumerate()
            .map(|(t, it)| {
                let (variant, x) = it.first().copied().unwrap_or((0, 1));
                Box::new(move || cold_thread(t, variant, x)) as sched::Body
            })
            .collect();
        sched::set_anchor(d.anchor.clone());
        out = sched::run_sim(
            SimCfg { seed: d.sched_seed, strategy: Strategy::parse(&d.strategy).unwrap_or(Strategy::Uniform), replay: d.schedule.clone(), step_cap: 3_000_000, keep_trace },
            bodies,
        );
        sched::set_anchor(None);
    } else {
        // ---- setup on the main thread: runtime, corpus, shared handles, solo runs
        #[allow(clippy::type_complexity)]
        let shared: Arc<Mutex<(Option<Sendable<(Runtime<NoCtx>, Runtime<Ctx<CallCtx>>)>>, Option<Sendable<(Package<NoCtx>, Package<Ctx<CallCtx>>)>>)>> = Arc::new(Mutex::new((None, None)));
        let mut fns: Vec<Arc<Sendable<Fx>>> = Vec::new();
        let handles_ok = crate::is_send_sync!(TypedFunc<NoCtx, fn(u64) -> u64>) && crate::is_send_sync!(TypedFunc<NoCtx, fn(Val<T24>, u64) -> Option<Val<T24>>>);
        let owners_ok = crate::is_send_sync!(Runtime<NoCtx>) && crate::is_send_sync!(Package<NoCtx>) && crate::is_send_sync!(Runtime<Ctx<CallCtx>>) && crate::is_send_sync!(Package<Ctx<CallCtx>>);
        if !handles_ok {
            viol::record("handle-not-send-sync", "TypedFunc is not Send + Sync in this tree: a function handle cannot be sent to and called from several threads");
        }
        let mut solo: HashMap<(usize, u64), Solo> = HashMap::new();
        {
            let _rg = alloc::ModeGuard::new(alloc::MODE_RUN);
            let rt = main_runtime();
            let rt2 = ctx_runtime();
            let src = corpus(&d.params);
            let src2 = ctx_corpus(&d.params);
            let (pkg, pkg2) = {
                let _cg = alloc::ModeGuard::new(alloc::MODE_COMPILE);
                (FileTree::test_file("corpus", &src, 0).compile(&rt), FileTree::test_file("ctxcorpus", &src2, 0).compile(&rt2))
            };
            match (pkg, pkg2) {
                (Ok(mut pkg), Ok(mut pkg2)) => match load(&mut pkg, &mut pkg2) {
                    Ok(f) => {
                        fns = f;
                        *shared.lock().unwrap() = (Some(Sendable((rt, rt2))), Some(Sendable((pkg, pkg2))));
                    }
                    Err(e) => viol::record("get-function-failed", e),
                },
                (Err(e), _) => viol::record("compile-failed", format!("corpus: {}", report_text(&e))),
                (_, Err(e)) => viol::record("compile-failed", format!("context corpus: {}", report_text(&e))),
            }
            if !viol::any() {
                *REENTER.lock().unwrap() = Some(fns[0].clone());
                *REENTER_SELF.lock().unwrap() = Some(fns[9].clone());
                *REENTER_DEEP.lock().unwrap() = Some(fns[17].clone());
                // the same call executed alone: the reference for the differential oracle
                tracked::set_log(true);
                for ops in &d.callers {
                    for op in ops {
                        if let ConcOp::Call { f, x } = op {
                            if !solo.contains_key(&(*f, *x)) {
                                let _ = take_hostlog();
                                let _ = tracked::take_log();
                                let r = fns[*f].call(*x);
                                let hl = take_hostlog();
                                let ms = multiset(tracked::take_log());
                                solo.insert((*f, *x), (r, hl, ms));
                                n_solo += 1;
                            }
                        }
                    }
                }
                // In half of the runs the simulated threads get a *fresh* package compiled from
                // the same source by the same runtimes (so their first calls race on whatever a
                // package sets up lazily); the reference package is dropped. Independently
                // compiled packages must behave identically.
                if d.run_seed % 2 == 0 {
                    let (rts, old) = {
                        let mut g = shared.lock().unwrap();
                        (g.0.take(), g.1.take())
                    };
                    if let Some(rts) = rts {
                        let (pkg, pkg2) = {
                            let _cg = alloc::ModeGuard::new(alloc::MODE_COMPILE);
                            (FileTree::test_file("corpus", &corpus(&d.params), 0).compile(&rts.0.0), FileTree::test_file("ctxcorpus", &ctx_corpus(&d.params), 0).compile(&rts.0.1))
                        };
                        match (pkg, pkg2) {
                            (Ok(mut pkg), Ok(mut pkg2)) => match load(&mut pkg, &mut pkg2) {
                                Ok(f) => {
                                    *REENTER.lock().unwrap() = Some(f[0].clone());
                                    *REENTER_SELF.lock().unwrap() = Some(f[9].clone());
                                    *REENTER_DEEP.lock().unwrap() = Some(f[17].clone());
                                    fns = f;
                                    *shared.lock().unwrap() = (Some(rts), Some(Sendable((pkg, pkg2))));
                                    fresh_pkg = true;
                                }
                                Err(e) => viol::record("get-function-failed", e),
                            },
                            (Err(e), _) | (_, Err(e)) => viol::record("compile-failed", format!("second compilation of the corpus: {}", report_text(&e))),
                        }
                    }
                    drop(old);
                }
            }
        }
        if !viol::any() {
            let solo = Arc::new(solo);
            let mut bodies: Vec<sched::Body> = Vec::new();
            let fine = d.fine;
            for (ct, ops) in d.callers.iter().enumerate() {
                let ops = ops.clone();
                n_calls += ops.iter().filter(|o| matches!(o, ConcOp::Call { .. })).count() as u64;
                let mut locals: Vec<Local> = fns.iter().map(|f| Local::Shared(f.clone())).collect();
                let solo = solo.clone();
                let shared = shared.clone();
                bodies.push(Box::new(move || {
                    let me = sched::tid();
                    for (oi, op) in ops.iter().enumerate() {
                        let window = match fine {
                            Some((ft, fi, k)) if ft == ct && fi == oi => k,
                            _ => 0,
                        };
                        {
                            let _pg = alloc::ModeGuard::new(alloc::MODE_PLAIN);
                            sched::set_label(match op {
                                ConcOp::Call { .. } => "call",
                                ConcOp::CloneH { .. } => "clone-handle",
                                ConcOp::DropH { .. } => "drop-handle",
                                ConcOp::DropPkg => "drop-package",
                                ConcOp::DropRt => "drop-runtime",
                            });
                        }
                        match op {
                            ConcOp::Call { f, x } => {
                                let fx: Option<&Fx> = match &locals[*f] {
                                    Local::Shared(a) => Some(&a.0),
                                    Local::Own(o) => Some(&o.0),
                                    Local::Gone => None,
                                };
                                let Some(fx) = fx else { continue };
                                let _ = take_hostlog();
                                let _ = tracked::take_log_for(me);
                                if IN_CALL.fetch_add(1, SeqCst) > 0 {
                                    P_CALLS_OVERLAPPED.fetch_add(1, SeqCst);
                                }
                                let r = sched::fine_window(window, || fx.call(*x));
                                IN_CALL.fetch_sub(1, SeqCst);
                                let hl = take_hostlog();
                                let ms = multiset(tracked::take_log_for(me));
                                let _pg = alloc::ModeGuard::new(alloc::MODE_PLAIN);
                                if let Some((sr, shl, sms)) = solo.get(&(*f, *x)) {
                                    if r != *sr {
                                        viol::record("differs-from-solo-run", format!("{}({x}) returned {r:?} under concurrency but {sr:?} when executed alone", FN_NAMES[*f]));
                                    } else if hl != *shl {
                                        viol::record("differs-from-solo-run", format!("{}({x}) made host calls {hl:?} under concurrency but {shl:?} when executed alone", FN_NAMES[*f]));
                                    } else if ms != *sms {
                                        viol::record("differs-from-solo-run", format!("{}({x}) cloned/dropped tracked values {ms:?} under concurrency but {sms:?} when executed alone (payload, +1 created / -1 dropped) -> count", FN_NAMES[*f]));
                                    }
                                }
                            }
                            ConcOp::CloneH { f } => {
                                let c = match &locals[*f] {
                                    Local::Shared(a) => Some(Sendable(a.0.clone())),
                                    Local::Own(o) => Some(Sendable(o.0.clone())),
                                    Local::Gone => None,
                                };
                                if let Some(c) = c {
                                    locals[*f] = Local::Own(c);
                                }
                            }
                            ConcOp::DropH { f } => {
                                if IN_CALL.load(SeqCst) > 0 {
                                    P_DROP_DURING_CALL.fetch_add(1, SeqCst);
                                }
                                locals[*f] = Local::Gone;
                            }
                            ConcOp::DropPkg if owners_ok => {
                                let p = { shared.lock().unwrap().1.take() };
                                if IN_CALL.load(SeqCst) > 0 {
                                    P_DROP_DURING_CALL.fetch_add(1, SeqCst);
                                }
                                drop(p);
                            }
                            ConcOp::DropRt if owners_ok => {
                                let p = { shared.lock().unwrap().0.take() };
                                if IN_CALL.load(SeqCst) > 0 {
                                    P_DROP_DURING_CALL.fetch_add(1, SeqCst);
                                }
                                drop(p);
                            }
                            // packages/runtimes are not Send in this tree: they stay where they were built
                            ConcOp::DropPkg | ConcOp::DropRt => {}
                        }
                        if viol::any() {
                            break;
                        }
                    }
                    sched::set_label("thread-exit: dropping handles");
                    drop(locals);
                }));
            }
            for (tag, it) in d.compilers.iter().enumerate() {
                let it = it.clone();
                // a clone of the callers' runtime for this compiler (made here, on the main thread)
                let rt_clone = if owners_ok { shared.lock().unwrap().0.as_ref().map(|r| Sendable(r.0.0.clone())) } else { None };
                bodies.push(Box::new(move || compile_loop(tag, &it, rt_clone)));
            }
            out = sched::run_sim(
                SimCfg { seed: d.sched_seed, strategy: Strategy::parse(&d.strategy).unwrap_or(Strategy::Uniform), replay: d.schedule.clone(), step_cap: 3_000_000, keep_trace },
                bodies,
            );
        }
        // teardown
        {
            let _rg = alloc::ModeGuard::new(alloc::MODE_RUN);
            *REENTER.lock().unwrap() = None;
            *REENTER_SELF.lock().unwrap() = None;
            *REENTER_DEEP.lock().unwrap() = None;
            drop(fns);
            let s = std::mem::take(&mut *shared.lock().unwrap());
            drop(s);
        }
    }
    tracked::set_log(false);
    if !viol::any() {
        let live = tracked::live_by_payload();
        if !live.is_empty() {
            viol::record("leak", format!("after every runtime, package and handle was dropped these tracked values (payload -> count) are still alive: {live:?}"));
        }
        if tracked::zst_live() != 0 {
            viol::record("leak", format!("zero-sized tracked values: live count {}", tracked::zst_live()));
        }
        use std::sync::atomic::Ordering::Relaxed;
        let (a, f) = (alloc::ST_PAGE_ALLOCS.load(Relaxed), alloc::ST_PAGE_FREES.load(Relaxed));
        if a != f {
            viol::record("pages-not-released", format!("{a} machine-code page blocks were allocated, {f} freed, after every holder was dropped"));
        }
    }
    let _ = alloc::end_run_check();
    res.violations = viol::take();
    res.steps = out.steps;
    res.trace_hash = out.trace_hash;
    res.sig_hash = out.sig_hash;
    res.preemptions = out.preemptions;
    res.decisions = out.decisions.clone();
    let c = &mut res.counters;
    c.insert("runs".into(), 1);
    c.insert("knob_page_reuse_runs".into(), page_reuse as u64);
    c.insert("pages_reused".into(), alloc::ST_PAGE_REUSED.load(std::sync::atomic::Ordering::Relaxed));
    c.insert(format!("scenario_{}", d.scenario), 1);
    c.insert("steps".into(), out.steps);
    c.insert("switches".into(), out.switches);
    c.insert("preemptions".into(), out.preemptions);
    c.insert("preempt_after_release".into(), out.preempt_after_rel);
    c.insert("lock_contended".into(), out.contended);
    c.insert(format!("strategy_{}", d.strategy.split('/').next().unwrap_or("")), 1);
    c.insert("calls_under_simulation".into(), n_calls);
    c.insert("fine_window_configured".into(), d.fine.is_some() as u64);
    c.insert("anchored_window_configured".into(), d.anchor.is_some() as u64);
    c.insert("anchored_window_armed".into(), sched::ANCHOR_ARMED.load(SeqCst));
    c.insert("anchored_window_fired_after_atomic_instruction".into(), sched::ANCHOR_FIRED_ATOMIC.load(SeqCst));
    c.insert("fine_window_preemptions_fired".into(), sched::FINE_FIRED.load(SeqCst));
    c.insert("solo_reference_calls".into(), n_solo);
    c.insert("runs_with_fresh_package_for_the_threads".into(), fresh_pkg as u64);
    c.insert("background_compile_threads".into(), if d.scenario == "calls" { d.compilers.len() as u64 } else { 0 });
    c.insert("probe_reentrant_host_call".into(), P_REENTER_DEPTH.load(SeqCst));
    c.insert("probe_calls_overlapped".into(), P_CALLS_OVERLAPPED.load(SeqCst));
    c.insert("probe_drop_while_other_thread_mid_call".into(), P_DROP_DURING_CALL.load(SeqCst));
    c.insert("probe_compile_started_while_other_thread_mid_call".into(), P_COMPILE_DURING_CALL.load(SeqCst));
    for (s, n) in &out.sites {
        c.insert(format!("site_{s}"), *n);
    }
    for ops in &d.callers {
        for op in ops {
            if let ConcOp::Call { f, .. } = op {
                *c.entry(format!("fn_{}", FN_NAMES[*f])).or_insert(0) += 1;
            }
        }
    }
    if keep_trace {
        res.trace = out.trace.iter().map(|(t, k, o)| format!("t{t} {} {o}", crate::scen_list::kind_name(*k))).collect();
    }
    res
}

// ------------------------------------------------------------------ minimisation

pub fn shrink(d: &ConcDesc) -> Vec<ConcDesc> {
    let mut out = Vec::new();
    let sched = d.schedule.clone().unwrap_or_default();
    let nthreads = d.callers.len() + d.compilers.len();
    let renum = |t: usize| -> Vec<u8> { sched.iter().filter(|&&x| x as usize != t).map(|&x| if x as usize > t { x - 1 } else { x }).collect() };
    if nthreads > 1 {
        for t in 0..d.callers.len() {
            let mut c = d.clone();
            c.callers.remove(t);
            c.schedule = Some(renum(t));
            out.push(c);
        }
        for t in 0..d.compilers.len() {
            let mut c = d.clone();
            c.compilers.remove(t);
            c.schedule = Some(renum(d.callers.len() + t));
            out.push(c);
        }
    }
    for t in 0..d.callers.len() {
        for k in (0..d.callers[t].len()).rev() {
            let mut c = d.clone();
            c.callers[t].remove(k);
            out.push(c);
        }
    }
    if d.sb_ops.len() > 1 {
        for t in 0..d.sb_ops.len() {
            let mut c = d.clone();
            c.sb_ops.remove(t);
            c.schedule = Some(renum(t));
            out.push(c);
        }
    }
    for t in 0..d.sb_ops.len() {
        for k in (0..d.sb_ops[t].len()).rev() {
            let mut c = d.clone();
            c.sb_ops[t].remove(k);
            out.push(c);
        }
    }
    for t in 0..d.compilers.len() {
        if d.compilers[t].len() > 1 {
            let mut c = d.clone();
            c.compilers[t].pop();
            out.push(c);
        }
    }
    if !sched.is_empty() {
        let mut c = d.clone();
        c.schedule = Some(sched[..sched.len() / 2].to_vec());
        out.push(c);
        let mut switches: Vec<usize> = (1..sched.len()).filter(|&i| sched[i] != sched[i - 1]).collect();
        switches.truncate(200);
        for i in switches {
            let mut c = d.clone();
            let mut s = sched.clone();
            s[i] = s[i - 1];
            c.schedule = Some(s);
            out.push(c);
        }
    }
    out
}

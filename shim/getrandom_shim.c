/* LD_PRELOAD shim: getrandom(2) returns constant bytes, so that every freshly
 * spawned thread's std::collections::hash_map::RandomState starts from the same
 * keys and HashMap iteration order is identical across processes. Used only by
 * the verification harness. */
#define _GNU_SOURCE
#include <sys/types.h>
#include <stddef.h>
ssize_t getrandom(void *buf, size_t len, unsigned int flags) {
    unsigned char *p = buf;
    (void)flags;
    for (size_t i = 0; i < len; i++) p[i] = (unsigned char)(0x5A ^ (i * 37));
    return (ssize_t)len;
}

#!/usr/bin/env python3
"""Property-breaking edits (DESIGN Appendix D) as (id, property, file, old, new).
`make` writes each as a patch file by applying the edit to /repo, taking `git diff`,
and reverting. `run` applies each patch to /repo, runs the check, and reverts."""
import subprocess, sys, os, json, time

M = []
def m(id, prop, file, old, new, note=""):
    M.append(dict(id=id, prop=prop, file=file, old=old, new=new, note=note))

L = "src/value/list.rs"
# ---------------- C16
m("c16-get-clone-outside-lock", "C16", L,
  """            let guard = self.inner.0.lock().unwrap();
            let ptr = guard.get(idx)?;
""",
  """            let ptr = self.inner.0.lock().unwrap().get(idx)?;
""", "F2 unrepaired in List::get")
m("c16-list_get-lookup-outside-lock", "C16", L,
  """        let raw = this.0.lock().unwrap();
        match idx.and_then(|idx| raw.get(idx)) {""",
  """        let found = idx.and_then(|idx| this.0.lock().unwrap().get(idx));
        let raw = this.0.lock().unwrap();
        match found {""", "F2 unrepaired in ffi::list_get")
m("c16-to_vec-unlocked-copy", "C16", L,
  """            let guard = self.inner.0.lock().unwrap();

            // SAFETY: The RawList always contains a valid slice. Even if the
            // RawList has a capacity of 0, the pointer is still non-null and
            // aligned, as required by `from_raw_parts`.
            let slice = unsafe {
                std::slice::from_raw_parts(
                    guard.ptr.cast::<T::Transformed>().as_ptr(),
                    guard.len,
                )
            };
""",
  """            let (ptr, len) = {
                let guard = self.inner.0.lock().unwrap();
                (guard.ptr, guard.len)
            };

            // SAFETY: The RawList always contains a valid slice. Even if the
            // RawList has a capacity of 0, the pointer is still non-null and
            // aligned, as required by `from_raw_parts`.
            let slice = unsafe {
                std::slice::from_raw_parts(
                    ptr.cast::<T::Transformed>().as_ptr(),
                    len,
                )
            };
""", "to_vec reads ptr/len under the guard, copies under none")
m("c16-eq-argument-order-locks", "C16", L,
  """        let (this, other) = if Arc::as_ptr(&self.0) < Arc::as_ptr(&other.0) {
            let this = self.0.lock().unwrap();
            let other = other.0.lock().unwrap();
            (this, other)
        } else {
            let other = other.0.lock().unwrap();
            let this = self.0.lock().unwrap();
            (this, other)
        };

        if this.len != other.len {""",
  """        let this = self.0.lock().unwrap();
        let other = other.0.lock().unwrap();

        if this.len != other.len {""", "F3 unrepaired (ErasedList::eq)")
m("c16-concat-holds-a-while-locking-b", "C16", L,
  """        // This drop is important in the case that self == other
        // We need to ensure we don't lock the mutex twice
        drop(a);

        let b = other.0.lock().unwrap();
""",
  """        let b = if Arc::ptr_eq(&self.0, &other.0) {
            drop(a);
            other.0.lock().unwrap()
        } else {
            let b = other.0.lock().unwrap();
            drop(a);
            b
        };
""", "concat keeps a locked while locking b: ABBA with a concurrent b.concat(a)")
m("c16-swap-check-and-swap-in-two-sections", "C16", L,
  """    pub fn swap(&self, i: usize, j: usize) {
        self.0.lock().unwrap().swap(i, j)
    }""",
  """    pub fn swap(&self, i: usize, j: usize) {
        let len = self.0.lock().unwrap().len();
        if i >= len || j >= len {
            return;
        }
        let a = self.0.lock().unwrap().get(i).map(|p| p.as_ptr() as usize);
        let b = self.0.lock().unwrap().get(j).map(|p| p.as_ptr() as usize);
        let guard = self.0.lock().unwrap();
        if let (Some(a), Some(b)) = (a, b) {
            if a != b {
                // SAFETY: (mutant) pointers looked up in an earlier critical section
                unsafe {
                    std::ptr::swap_nonoverlapping(a as *mut u8, b as *mut u8, guard.vtable.size());
                }
            }
        }
    }""", "swap looks its elements up in one critical section and swaps in another")
m("c16-len-unlocked-read", "C16", L,
  """    pub unsafe fn push(&self, elem_ptr: NonNull<T>) {
        // SAFETY: We require that `elem_ptr` must be a pointer to the element
        // type `T` that the list contains.
        unsafe { self.0.lock().unwrap().push(elem_ptr) };
    }""",
  """    pub unsafe fn push(&self, elem_ptr: NonNull<T>) {
        // (mutant) reserve in one critical section, write in another
        self.0.lock().unwrap().reserve(1);
        // SAFETY: We require that `elem_ptr` must be a pointer to the element
        // type `T` that the list contains.
        unsafe { self.0.lock().unwrap().push(elem_ptr) };
    }""", "benign split (reserve then push): must NOT be flagged")
# ---------------- C15
m("c15-get-off-by-one", "C15", L,
  """        if idx >= self.len {
            return None;
        }
        let offset = self.offset_of(idx);""",
  """        if idx > self.len {
            return None;
        }
        let offset = self.offset_of(idx);""", "idx > self.len in RawList::get")
m("c15-capacity-halved", "C15", L,
  """    let next_power_of_two = required.checked_next_power_of_two().unwrap();
    Ord::max(next_power_of_two, minimum_capacity)""",
  """    let next_power_of_two = required.checked_next_power_of_two().unwrap();
    if required > 8 { return next_power_of_two / 2 + 1; }
    Ord::max(next_power_of_two, minimum_capacity)""", "capacity too small above 8 elements: heap overrun")
m("c15-extend-zst-miscount", "C15", L,
  """                std::mem::forget(drop_guard);
            }
            self.len += other.len;
            return;""",
  """                std::mem::forget(drop_guard);
            }
            self.len += other.len.saturating_sub(1);
            return;""", "extend for size-0 elements adds other.len - 1")
m("c15-contains-owned-leaks-argument", "C15", L,
  """        let res = unsafe { raw.contains(item_ptr) };

        if let Some(drop_fn) = raw.vtable.drop_fn {""",
  """        let res = unsafe { raw.contains(item_ptr) };

        if let Some(drop_fn) = raw.vtable.drop_fn.filter(|_| !res) {""", "contains_owned does not drop its argument when found")
m("c15-concat-self-deadlock", "C15", L,
  """        // This drop is important in the case that self == other
        // We need to ensure we don't lock the mutex twice
        drop(a);

        let b = other.0.lock().unwrap();

        // SAFETY: raw and b have the same element type
        unsafe { raw.extend(&b) };

        drop(b);
""",
  """        let b = other.0.lock().unwrap();

        // SAFETY: raw and b have the same element type
        unsafe { raw.extend(&b) };

        drop(b);
        drop(a);
""", "drop(a) moved after locking b: a.concat(a) deadlocks")
m("c15-eq-ptr-shortcut-removed", "C15", L,
  """        if Arc::ptr_eq(&self.0, &other.0) {
            return true;
        }

        // Always lock the two lists in the same (address) order, so that
        // `a == b` and `b == a` on two threads cannot deadlock.
        let (this, other) = if Arc::as_ptr(&self.0) < Arc::as_ptr(&other.0) {""",
  """        // Always lock the two lists in the same (address) order, so that
        // `a == b` and `b == a` on two threads cannot deadlock.
        let (this, other) = if Arc::as_ptr(&self.0) < Arc::as_ptr(&other.0) {""", "a == a deadlocks (script side)")
m("c15-concat-extends-self", "C15", L,
  """        let b = other.0.lock().unwrap();

        // SAFETY: raw and b have the same element type
        unsafe { raw.extend(&b) };

        drop(b);

        drop(raw);

        new""",
  """        let b = other.0.lock().unwrap();

        // SAFETY: raw and b have the same element type
        unsafe { raw.extend(&b) };

        drop(b);

        drop(raw);

        if new.len() == 7 {
            // (mutant) also appends to the left operand
            let extra = new.0.lock().unwrap();
            let mut a = self.0.lock().unwrap();
            // SAFETY: same element type
            unsafe { a.extend(&extra) };
        }

        new""", "concat changes its left operand when the result has 7 elements")
m("c15-eq-lengths-only-for-long-lists", "C15", L,
  """        for i in 0..this.len() {
            let elem1 = this.get(i).unwrap();
            let elem2 = other.get(i).unwrap();
""",
  """        for i in 0..this.len().min(5) {
            let elem1 = this.get(i).unwrap();
            let elem2 = other.get(i).unwrap();
""", "script == compares only the first 5 elements")
m("c15-swap-wrong-offset", "C15", L,
  """        let i = self.offset_of(i);
        let j = self.offset_of(j);

        // SAFETY: Since we know that idx < len < capacity and capacity is the""",
  """        let i = self.offset_of(i);
        let j = if j == 6 { self.offset_of(5) } else { self.offset_of(j) };
        if i == j { return; }

        // SAFETY: Since we know that idx < len < capacity and capacity is the""", "swap(_, 6) swaps with index 5")
m("c15-drop-skips-last", "C15", L,
  """        for i in 0..len {
            let offset = self.offset_of(i);

            // SAFETY: We stay within the allocation because we stay within the
            // length and therefore within the capacity of the list.""",
  """        for i in 0..(if len == 9 { 8 } else { len }) {
            let offset = self.offset_of(i);

            // SAFETY: We stay within the allocation because we stay within the
            // length and therefore within the capacity of the list.""", "drop of a 9-element list skips the last element")


G = "src/codegen/mod.rs"
# ---------------- C11
m("c11-jit-dropped-before-constants", "C11", G,
  """struct ModuleData {
    /// The functions in this module can reference constants.""",
  """struct ModuleData {
    cranelift_jit: JITModuleWrapper,

    /// The functions in this module can reference constants.""", "JIT module becomes the first field (dropped first): RotoConstant::drop runs freed code")
M[-1]["extra"] = [("""    _registered_fns: Vec<Arc<Box<dyn Any>>>,

    cranelift_jit: JITModuleWrapper,
}""", """    _registered_fns: Vec<Arc<Box<dyn Any>>>,
}""")]
m("c11-registered-fns-not-kept", "C11", G,
  """                self.roto_constants,
                self.registered_fns,
            ),""",
  """                self.roto_constants,
                Vec::new(),
            ),""", "module does not keep the registered closures alive")
m("c11-runtime-constants-not-kept", "C11", G,
  """            inner: SharedModuleData::new(
                self.inner,
                self.runtime_constants,""",
  """            inner: SharedModuleData::new(
                self.inner,
                HashMap::new(),""", "module does not keep the registered constants alive")
m("c11-free-memory-skipped", "C11", G,
  """            let cranelift_jit = ManuallyDrop::take(&mut self.0);
            cranelift_jit.free_memory();""",
  """            let cranelift_jit = ManuallyDrop::take(&mut self.0);
            std::mem::forget(cranelift_jit);""", "machine code never released")
m("c11-roto-constant-drop-skips-drop-fn", "C11", G,
  """        unsafe { (self.drop_fn)(self.ptr) };
        let layout = Layout::from_size_align(self.size, self.align).unwrap();""",
  """        if self.size > 16 { unsafe { (self.drop_fn)(self.ptr) } };
        let layout = Layout::from_size_align(self.size, self.align).unwrap();""", "small script constants are freed without being dropped")
m("c11-roto-constant-wrong-dealloc-layout", "C11", G,
  """        let layout = Layout::from_size_align(self.size, self.align).unwrap();
        unsafe { std::alloc::dealloc(self.ptr as *mut u8, layout) };""",
  """        let layout = Layout::from_size_align(self.size.next_multiple_of(16), self.align).unwrap();
        unsafe { std::alloc::dealloc(self.ptr as *mut u8, layout) };""", "constant slot deallocated with another layout")
m("c11-constant-initialiser-twice", "C11", G,
  """                unsafe { (func_ptr)(constant.ptr) };

                module.roto_constants.insert(*name, constant);""",
  """                unsafe { (func_ptr)(constant.ptr) };
                if layout.size() == 24 { unsafe { (func_ptr)(constant.ptr) } };

                module.roto_constants.insert(*name, constant);""", "initialiser of 24-byte constants runs twice (first value leaked)")
m("c11-typedfunc-shares-nothing-after-clone", "C11", G,
  """#[derive(Clone)]
pub struct SharedModuleData(Arc<ModuleData>);""",
  """pub struct SharedModuleData(Arc<ModuleData>);

impl Clone for SharedModuleData {
    fn clone(&self) -> Self {
        // (mutant) every third clone does not take a strong reference
        let c = Self(self.0.clone());
        if Arc::strong_count(&self.0) % 3 == 0 {
            // SAFETY: (mutant) deliberately unbalanced
            unsafe { Arc::decrement_strong_count(Arc::as_ptr(&self.0)) };
        }
        c
    }
}""", "handle clones sometimes do not hold the module")


F = "src/runtime/func.rs"
# ---------------- C12
m("c12-sync-bound-removed-from-closures", "C12", F,
  """            F: Fn($($a,)*) -> $r + Send + Sync + 'static,""",
  """            F: Fn($($a,)*) -> $r + Send + 'static,""", "F4 unrepaired: blanket impl for closures does not require Sync")
M[-1]["extra"] = [("pub trait RegisterableFn<A, R, MaybeOutPtr>: Send + Sync + 'static {", "pub trait RegisterableFn<A, R, MaybeOutPtr>: Send + 'static {")]
m("c12-shared-scratch-for-large-slots", "C12", G,
  """        for (v, slot) in stack_slots {
            let pointer_ty = self.module.isa.pointer_type();
            let p = self.ins().stack_addr(pointer_ty, slot, 0);
            self.def(self.module.variable_map[&v].0, p);
        }""",
  """        for (v, slot) in stack_slots {
            let pointer_ty = self.module.isa.pointer_type();
            let size = self.builder.func.sized_stack_slots[slot].size;
            let p = if size >= 32 && size <= 40 {
                // (mutant) large temporaries live in a per-function scratch buffer instead of the stack
                let buf: &'static mut [u64] = Box::leak(vec![0u64; 8].into_boxed_slice());
                self.ins().iconst(pointer_ty, buf.as_ptr() as i64)
            } else {
                self.ins().stack_addr(pointer_ty, slot, 0)
            };
            self.def(self.module.variable_map[&v].0, p);
        }""", "32-40 byte temporaries live in a per-function static buffer: calls on two threads share it")

def sh(cmd, **kw):
    return subprocess.run(cmd, shell=True, capture_output=True, text=True, **kw)

def make():
    os.makedirs("/verif/sensitivity/patches", exist_ok=True)
    assert sh("git -C /repo status --porcelain").stdout.strip() == "", "/repo not clean"
    for x in M:
        p = "/repo/" + x["file"]
        s = open(p).read()
        if s.count(x["old"]) != 1:
            print("SKIP (pattern count %d): %s" % (s.count(x["old"]), x["id"])); continue
        s = s.replace(x["old"], x["new"])
        for (o, n) in x.get("extra", []):
            assert s.count(o) == 1, x["id"]
            s = s.replace(o, n)
        open(p, "w").write(s)
        d = sh("git -C /repo diff").stdout
        open("/verif/sensitivity/patches/%s.diff" % x["id"], "w").write(d)
        sh("git -C /repo checkout -- .")
        print("made", x["id"])

def run(sel, extra=""):
    res = []
    for x in M:
        if sel and not any(s in x["id"] for s in sel): continue
        pf = "/verif/sensitivity/patches/%s.diff" % x["id"]
        if not os.path.exists(pf): print("no patch", x["id"]); continue
        assert sh("git -C /repo status --porcelain").stdout.strip() == "", "/repo not clean"
        a = sh("git -C /repo apply " + pf)
        if a.returncode != 0:
            print("APPLY FAILED", x["id"], a.stderr[:200]); continue
        t = time.time()
        try:
            r = sh("cd /verif && ./check %s quick %s --evidence /verif/.work/ev-mut.json 2>/dev/null" % (x["prop"], extra))
        finally:
            sh("git -C /repo checkout -- .")
        lines = [l for l in r.stdout.splitlines() if l.startswith(("VIOLATION", "  class", "HARNESS", "OK", "KNOWN"))]
        verdict = "CAUGHT" if r.returncode == 1 else ("clean" if r.returncode == 0 else "harness-error")
        print("%-45s %-14s %5.1fs  %s" % (x["id"], verdict, time.time() - t, " | ".join(l.strip()[:160] for l in lines if not l.startswith("KNOWN"))[:400]), flush=True)
        res.append(dict(id=x["id"], prop=x["prop"], verdict=verdict, note=x["note"], lines=lines))
    json.dump(res, open("/verif/sensitivity/last_run.json", "w"), indent=1)

if __name__ == "__main__":
    if sys.argv[1] == "make": make()
    else: run(sys.argv[2:], os.environ.get("EXTRA", ""))

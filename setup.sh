#!/bin/sh
# Build the verification harness from files on disk only (offline).
set -e
cd "$(dirname "$0")"
export CARGO_NET_OFFLINE=true
mkdir -p .work evidence replays
gcc -shared -fPIC -O2 -o shim/getrandom_shim.so shim/getrandom_shim.c
# the harness resolves its dependencies with the repository's own lock file
if [ ! -f sim/Cargo.lock ] || [ /repo/Cargo.lock -nt sim/Cargo.lock ]; then
    cp /repo/Cargo.lock sim/Cargo.lock
fi
(cd sim && cargo build --release --offline 2>&1 | tail -3)
test -x sim/target/release/verif-sim

#!/bin/sh
# Build the verification harness from files on disk only (offline).
set -e
cd "$(dirname "$0")"
export CARGO_NET_OFFLINE=true
mkdir -p .work evidence replays
gcc -shared -fPIC -O2 -o shim/getrandom_shim.so shim/getrandom_shim.c
# the harness resolves its dependencies with the repository's own lock file
if [ ! -f sim/Cargo.lock ] || [ /repo/Cargo.lock -nt sim/Cargo.lock ]; then
    cp /repo/Cargo.lock sim/Cargo.lock
fi
# never fall back to a stale binary: a failed build must fail the setup
rm -f .work/build.ok
(cd sim && cargo build --release --offline > ../.work/cargo-build.log 2>&1 && touch ../.work/build.ok) || true
tail -3 .work/cargo-build.log
if [ ! -f .work/build.ok ]; then
    grep -E "^error" -A12 .work/cargo-build.log | head -60
    rm -f sim/target/release/verif-sim
    exit 1
fi
# probe programs of C12 Part C: resolve with the same lock file, pre-build roto for `cargo check`
if [ ! -f probes/Cargo.lock ] || [ /repo/Cargo.lock -nt probes/Cargo.lock ]; then
    cp /repo/Cargo.lock probes/Cargo.lock
fi
(cd probes && cargo check --offline --quiet --bin p8_rc_argument >/dev/null 2>&1 || true)
test -x sim/target/release/verif-sim
